import SignaloModel.Driver.Filters
import SignaloModel.Driver.Floats
import SignaloModel.Proofs.PeekProofs
import SignaloModel.Proofs.PeekRaw
import SignaloModel.Model.Pipes
import SignaloModel.Model.PipesSink
import SignaloModel.Model.PipeRegistry
/-!
Driver, part 2: sources (C10), sinks (C11), pipes (C01); the line dispatcher.
-/
namespace SignaloModel.Driver
open SignaloModel SignaloModel.Registry SignaloModel.Sources SignaloModel.SinkModels

/-! ### source expressions -/

def isDelim (c : Char) : Bool := c == ',' || c == ')' || c == ']'

def takeTok (cs : List Char) : String × List Char :=
  (String.ofList (cs.takeWhile (fun c => !isDelim c)), cs.dropWhile (fun c => !isDelim c))

def expect (c : Char) : List Char → Option (List Char)
  | d :: rest => if c == d then some rest else none
  | [] => none

def parseValTok (cs : List Char) : Option (V × List Char) :=
  let (t, rest) := takeTok cs
  (V.parse t).map (fun v => (v, rest))

def parseNatTok (cs : List Char) : Option (Nat × List Char) :=
  let (t, rest) := takeTok cs
  t.toNat?.map (fun n => (n, rest))

partial def parseValList (cs : List Char) (acc : List V) : Option (List V × List Char) :=
  match cs with
  | ']' :: rest => some (acc, rest)
  | ',' :: rest => parseValList rest acc
  | _ => do
    let (v, rest) ← parseValTok cs
    parseValList rest (acc ++ [v])

def stripPrefix (p : String) (cs : List Char) : Option (List Char) :=
  if p.toList.isPrefixOf cs then some (cs.drop p.length) else none

partial def parseExpr (cs : List Char) : Option (Expr V × List Char) :=
  if let some r := stripPrefix "iter[" cs then do
    let (vs, r) ← parseValList r []
    pure (.iter vs, r)
  else if let some r := stripPrefix "const(" cs then do
    let (v, r) ← parseValTok r
    pure (.const v, ← expect ')' r)
  else if let some r := stripPrefix "incr(" cs then do
    let (a, r) ← parseValTok r
    let (b, r) ← parseValTok (← expect ',' r)
    pure (.incr a b, ← expect ')' r)
  else if let some r := stripPrefix "take(" cs then do
    let (n, r) ← parseNatTok r
    let (e, r) ← parseExpr (← expect ',' r)
    pure (.take n e, ← expect ')' r)
  else if let some r := stripPrefix "skip(" cs then do
    let (n, r) ← parseNatTok r
    let (e, r) ← parseExpr (← expect ',' r)
    pure (.skip n e, ← expect ')' r)
  else if let some r := stripPrefix "chain(" cs then do
    let (a, r) ← parseExpr r
    let (b, r) ← parseExpr (← expect ',' r)
    pure (.chain a b, ← expect ')' r)
  else if let some r := stripPrefix "cycle(" cs then do
    let (e, r) ← parseExpr r
    pure (.cycle e, ← expect ')' r)
  else if let some r := stripPrefix "repeat(" cs then do
    let (v, r) ← parseValTok r
    let (n, r) ← parseNatTok (← expect ',' r)
    pure (.rep v n, ← expect ')' r)
  else if let some r := stripPrefix "padc(" cs then do
    let (v, r) ← parseValTok r
    let (n, r) ← parseNatTok (← expect ',' r)
    let (e, r) ← parseExpr (← expect ',' r)
    pure (.padc v n e, ← expect ')' r)
  else if let some r := stripPrefix "pade(" cs then do
    let (n, r) ← parseNatTok r
    let (e, r) ← parseExpr (← expect ',' r)
    pure (.pade n e, ← expect ')' r)
  else if let some r := stripPrefix "cache(" cs then do
    let (e, r) ← parseExpr r
    pure (.cache e, ← expect ')' r)
  else if let some r := stripPrefix "units(" cs then do
    -- `sources::unit_system::UnitSystem`: items wrapped in a unit and unwrapped again
    let (e, r) ← parseExpr r
    pure (.rt e, ← expect ')' r)
  else if let some r := stripPrefix "rt(" cs then do
    let (e, r) ← parseExpr r
    pure (.rt e, ← expect ')' r)
  else none

def parseExprStr (s : String) : Option (Expr V) :=
  match parseExpr s.toList with
  | some (e, []) => some e
  | _ => none

/-- adapter trees with scripted leaves `burst[1,-,2]` (`-` = an end marker) -/
partial def parseRExpr (cs : List Char) : Option (RExpr V × List Char) :=
  if let some r := stripPrefix "burst[" cs then
    let body := r.takeWhile (· != ']')
    let rest := (r.dropWhile (· != ']')).drop 1
    let toks := if body.isEmpty then [] else (String.ofList body).splitOn ","
    (toks.mapM (fun t => if t == "-" then some none else (V.parse t).map some)).map (fun items => (.burst items, rest))
  else if let some r := stripPrefix "take(" cs then do
    let (n, r) ← parseNatTok r
    let (e, r) ← parseRExpr (← expect ',' r)
    pure (.take n e, ← expect ')' r)
  else if let some r := stripPrefix "skip(" cs then do
    let (n, r) ← parseNatTok r
    let (e, r) ← parseRExpr (← expect ',' r)
    pure (.skip n e, ← expect ')' r)
  else if let some r := stripPrefix "chain(" cs then do
    let (a, r) ← parseRExpr r
    let (b, r) ← parseRExpr (← expect ',' r)
    pure (.chain a b, ← expect ')' r)
  else if let some r := stripPrefix "cycle(" cs then do
    let (e, r) ← parseRExpr r
    pure (.cycle e, ← expect ')' r)
  else if let some r := stripPrefix "padc(" cs then do
    let (v, r) ← parseValTok r
    let (n, r) ← parseNatTok (← expect ',' r)
    let (e, r) ← parseRExpr (← expect ',' r)
    pure (.padc v n e, ← expect ')' r)
  else if let some r := stripPrefix "pade(" cs then do
    let (n, r) ← parseNatTok r
    let (e, r) ← parseRExpr (← expect ',' r)
    pure (.pade n e, ← expect ')' r)
  else if let some r := stripPrefix "cache(" cs then do
    let (e, r) ← parseRExpr r
    pure (.cache e, ← expect ')' r)
  else (parseExpr cs).map (fun (e, r) => (.fused e, r))

def parseRExprStr (s : String) : Option (RExpr V) :=
  match parseRExpr s.toList with
  | some (e, []) => some e
  | _ => none

/-- answers of the plain machine to `k` pulls -/
def exprPulls (e : Expr V) (k : Nat) : List (Option V) := pulls e.compile.src e.compile.st k

def srcModelAnswer (i : SrcInst) (op : String) : Option V :=
  let log := i.log ++ [op]
  match i.raw with
  | some r =>
    let m := r.compile
    if i.top == "peek" then ((runPeek m.src { st := m.st, peeked := none } (log.map (· == "peek"))).getLast?).getD none
    else
      let k := (log.filter (· == "pull")).length
      if op == "cached" then (if (i.log.filter (· == "pull")).length == 0 then none else ((pulls m.src m.st k).getLast?).getD none)
      else ((pulls m.src m.st k).getLast?).getD none
  | none =>
  match i.top with
  | "peek" => ((runPeek i.e.compile.src { st := i.e.compile.st, peeked := none } (log.map (· == "peek"))).getLast?).getD none
  | _ =>
    -- plain / cache on top: `pull` answers in order; `cached` = the most recent answer (`none` before)
    let k := (log.filter (· == "pull")).length
    match i.view with
    | some (v, n) =>
      let idx := if v == "skip" then (k - 1) + n else (k - 1) * n
      ((exprPulls i.e (idx + 1)).getLast?).getD none
    | none =>
    if op == "cached" then (if (i.log.filter (· == "pull")).length == 0 then none else ((exprPulls i.e k).getLast?).getD none)
    else ((exprPulls i.e k).getLast?).getD none

/-- the largest count in a tree -/
partial def exprMaxCount : Expr V → Nat
  | .take n e => max n (exprMaxCount e) | .skip _ e => exprMaxCount e | .chain a b => max (exprMaxCount a) (exprMaxCount b)
  | .cycle e => exprMaxCount e | .rep _ n => n | .padc _ n e => max n (exprMaxCount e) | .pade n e => max n (exprMaxCount e)
  | .cache e => exprMaxCount e | .rt e => exprMaxCount e | _ => 0

/-- counts (of `take`, the pads, `repeat`) cut down to a horizon no case comes near: the iterator analogue is a list,
and a list of `usize::MAX` repetitions cannot be written down; its first `h` answers are those of the clamped tree -/
partial def exprClamp (h : Nat) : Expr V → Expr V
  | .take n e => .take (min n h) (exprClamp h e) | .skip n e => .skip n (exprClamp h e)
  | .chain a b => .chain (exprClamp h a) (exprClamp h b) | .cycle e => .cycle (exprClamp h e)
  | .rep v n => .rep v (min n h) | .padc v n e => .padc v (min n h) (exprClamp h e) | .pade n e => .pade (min n h) (exprClamp h e)
  | .cache e => .cache (exprClamp h e) | .rt e => .rt (exprClamp h e) | e => e

def specDen (e : Expr V) : Content V := if exprMaxCount e > 256 then (exprClamp 256 e).den else e.den

/-- specification: the iterator analogue (`Expr.den`) -/
def srcSpecAnswer (i : SrcInst) (op : String) : Option V :=
  let consumed := (i.log.filter (· == "pull")).length
  match i.raw with
  | some r =>
    -- `Peekable` over the raw answers of the tree's machine: with `k` consumed, `peek` and `pull` both report raw
    -- answer `k` (there is no iterator analogue of a non-fused source to compare the tree itself with)
    let m := r.compile
    let raw (k : Nat) : Option V := rawAnswer m.src m.st k
    if op == "cached" then (if consumed == 0 then none else raw (consumed - 1))
    else if i.top == "peek" then ((peekSpecRaw raw 0 ((i.log ++ [op]).map (· == "peek"))).getLast?).getD none
    else raw consumed
  | none =>
  match i.view with
  | some (v, n) => (specDen i.e).answer (if v == "skip" then consumed + n else consumed * n)
  | none =>
  match op with
  | "cached" => if consumed == 0 then none else (specDen i.e).answer (consumed - 1)
  | _ =>
    if i.top == "peek" then ((peekSpec (specDen i.e) 0 ((i.log ++ [op]).map (· == "peek"))).getLast?).getD none
    else (specDen i.e).answer consumed

def DState.getSrc (d : DState) (id : Nat) : Option SrcInst := (d.srcs.find? (·.1 == id)).map (·.2)
def DState.putSrc (d : DState) (id : Nat) (i : SrcInst) : DState :=
  { d with srcs := (id, i) :: d.srcs.filter (·.1 != id) }

partial def exprFlags : Expr V → List String
  | .iter xs => [if xs.isEmpty then "src.empty" else if xs.length == 1 then "src.one" else "src.many"]
  | .const _ => ["src.const"]
  | .incr _ _ => ["src.incr"]
  | .take n e => (if n == 0 then ["take0"] else ["take"]) ++ exprFlags e
  | .skip n e => (if n == 0 then ["skip0"] else ["skip"]) ++ exprFlags e
  | .chain a b => ["chain"] ++ exprFlags a ++ exprFlags b
  | .cycle e => ["cycle"] ++ exprFlags e
  | .rep _ n => [if n == 0 then "repeat0" else "repeat"]
  | .padc _ n e => (if n == 0 then ["padc0"] else ["padc"]) ++ exprFlags e
  | .pade n e => (if n == 0 then ["pade0"] else ["pade"]) ++ exprFlags e
  | .cache e => ["cache"] ++ exprFlags e
  | .rt e => ["roundtrip"] ++ exprFlags e

def stepSourceOp (d : DState) (op : String) (toks impl : List String) : Option (DState × List String) :=
  let implS := " ".intercalate impl
  match toks with
  | ["new", id, top, expr] =>
    if (top == "src" || top == "peek" || top == "scache") && (expr.splitOn "burst[").length > 1 then do
      let r ← parseRExprStr expr
      let d := (d.putSrc (← id.toNat?) { e := .iter [], top := top, raw := some r }).flag "src.burst"
      some (report d op { model := "ok", impl := implS, kind := top })
    else if top == "src" && (expr.startsWith "rtskip(" || expr.startsWith "rtstep(") then do
      -- `rtskip(n,E)` / `rtstep(k,E)`: an iterator view of the bridge over the tree `E`
      let inner := String.ofList ((expr.toList.drop 7).dropLast)
      let nStr := String.ofList (inner.toList.takeWhile (· != ','))
      let e ← parseExprStr (String.ofList ((inner.toList.dropWhile (· != ',')).drop 1))
      let d := (d.putSrc (← id.toNat?) { e := e, top := top, view := some (if expr.startsWith "rtskip(" then "skip" else "step", ← nStr.toNat?) }).flag "src.iter-view"
      some (report d op { model := "ok", impl := implS, kind := top })
    else if top == "src" || top == "peek" || top == "scache" then do
      let e ← parseExprStr expr
      let d := (exprFlags e).foldl DState.flag (d.putSrc (← id.toNat?) { e := e, top := top })
      some (report d op { model := "ok", impl := implS, kind := top })
    else none
  | [o, id] =>
    if o == "pull" || o == "peek" || o == "cached" then do
      let id ← id.toNat?
      let i ← d.getSrc id
      let m := renderOpt (srcModelAnswer i o)
      let s := renderOpt (srcSpecAnswer i o)
      let ended := (srcSpecAnswer i o).isNone
      let d := if o == "cached" then d else
        d.putSrc id { i with log := i.log ++ [o], lastImpl := if o == "pull" then some implS else i.lastImpl }
      let d := if ended then d.flag "src.ended" else d
      -- C10: against the iterator analogue. C20 (the cache wrapper remembers the most recent item): against what the
      -- implementation itself answered to the last pull - a defect of the wrapped source is C10's business
      let clauses : List Clause :=
        if o == "pull" then [{ name := "C10.iterator-analogue", ok := s == implS, expected := s }]
        else if o == "peek" then [{ name := "C10.peek", ok := s == implS, expected := s }]
        else
          let e := i.lastImpl.getD "none"
          [{ name := "C10.cache-slot", ok := s == implS, expected := s },
           { name := "C20.source-cache", ok := e == implS, expected := e }]
      some (report d op { model := m, impl := implS, kind := i.top, clauses := clauses })
    else none
  | ["sclone", a, b] => do
    -- a copy of a source is a source in the same state (a pending look-ahead, a cached item included): same
    -- descriptor, same operation log
    let i ← d.getSrc (← a.toNat?)
    some (report ((d.putSrc (← b.toNat?) i).flag "src.clone") op { model := "ok", impl := implS, kind := i.top })
  | ["sclonefrom", a, b] => do
    -- `a.clone_from(&b)`: afterwards `a` is a source in the state `b` is in
    let i ← d.getSrc (← b.toNat?)
    let _ ← d.getSrc (← a.toNat?)
    some (report ((d.putSrc (← a.toNat?) i).flag "src.clone-from") op { model := "ok", impl := implS, kind := i.top })
  | ["ssame", a, b, clause] => do
    -- two sources pulled in lockstep (a wrapper and the bare source): their most recent answers agree
    let ia ← d.getSrc (← a.toNat?)
    let ib ← d.getSrc (← b.toNat?)
    let (ea, eb) := (ia.lastImpl.getD "-", ib.lastImpl.getD "-")
    some (report d op { model := "ok", impl := implS, kind := ia.top,
                        clauses := [{ name := clause, ok := ea == eb, expected := eb }] })
  | _ => none

/-! ### sinks -/

/-- `sink_min_f64` etc.: the same sink at `f64` (partial order: NaN) -/
def baseSinkKind (kind : String) : String :=
  -- the harness's own sinks (last stage of the C01 pipes): a collecting and a summing one
  if kind == "own_collect" then "sink_collect" else
  if kind == "own_sum" then "sink_unit_sum" else
  if kind.endsWith "_f64" then String.ofList (kind.toList.take (kind.length - 4)) else
  -- … and at the smallest machine integers
  if kind.endsWith "_u8" || kind.endsWith "_i8" || kind.endsWith "_fz" then String.ofList (kind.toList.take (kind.length - 3)) else kind

def mkSink (kind : String) : Option (Sk V) :=
  match baseSinkKind kind with
  | "sink_min" => some (.min none)
  | "sink_max" => some (.max none)
  | "sink_bounds" => some (.bounds none none)
  | "sink_last" => some (.last none)
  | "sink_integrate" => some (.integrate none)
  | "sink_mean" => some (.mean none)
  | "sink_meanvar" => some (.meanVar none)
  | "sink_stats" => some (.statistics none none none)
  | "sink_collect" => some (.collect [])
  | "sink_unit_sum" => some (.unitSum 0)
  | _ => none

def renderFin (o : Option (List V)) : String :=
  match o with
  | none => "none"
  | some l => renderOut (some l)

/-- C11: the batch statistic of everything received -/
def specFinalize (kind : String) (h : List V) : Option (List V) :=
  let kind := baseSinkKind kind
  if kind == "sink_unit_sum" then some [Spec.sum h] else
  if h.isEmpty then (if kind == "sink_collect" then some [] else none) else
  let mn := (Spec.extremum ltB h).getD V.err
  let mx := (Spec.extremum gtB h).getD V.err
  match kind with
  | "sink_min" => some [mn]
  | "sink_max" => some [mx]
  | "sink_bounds" => some [mn, mx]
  | "sink_last" => h.getLast?.map (fun v => [v])
  | "sink_integrate" => some [Spec.sum h]
  | "sink_mean" => some [Spec.batchMean h]
  | "sink_meanvar" => some [Spec.batchMean h, Spec.sampleVariance h]
  | "sink_stats" => some [mn, mx, Spec.batchMean h, Spec.sampleVariance h]
  | "sink_collect" => some h
  | _ => none

/-- C11: the running statistic of the prefix seen so far -/
def specRunning (kind : String) (h : List V) : Option (List V) :=
  let kind := baseSinkKind kind
  let mn := (Spec.extremum ltB h).getD V.err
  let mx := (Spec.extremum gtB h).getD V.err
  match kind with
  | "sink_min" => some [mn]
  | "sink_max" => some [mx]
  | "sink_bounds" => some [mn, mx]
  | "sink_integrate" => some [Spec.sum h]
  | "sink_mean" => some [Spec.batchMean h]
  | "sink_meanvar" => some [Spec.batchMean h, Spec.sumSqDev h]
  | "sink_stats" => some [mn, mx, Spec.batchMean h, Spec.sumSqDev h]
  | "sink_collect" => some h
  | _ => none

def isNan : V → Bool
  | .nan => true
  | _ => false

/-- C11 with incomparable samples (NaN) among those received: whatever the treatment of NaN (ignored, propagated,
the plain strict fold), a reported minimum / maximum is NaN or the extremum of the comparable samples -/
def partialOrderClauses (kind : String) (h : List V) (y : Option (List V)) : List Clause :=
  let clean := h.filter (fun v => !isNan v)
  let okFor (better : V → V → Bool) (v : V) : Bool := isNan v || some v == Spec.extremum better clean
  let ok := match baseSinkKind kind, y with
    | "sink_min", some [v] => okFor ltB v
    | "sink_max", some [v] => okFor gtB v
    | "sink_bounds", some [a, b] => okFor ltB a && okFor gtB b
    | _, _ => true
  [clauseP "C11.extremum-partial-order" ok "NaN or the extremum of the comparable samples"]

def DState.getSink (d : DState) (id : Nat) : Option SkInst := (d.sinks.find? (·.1 == id)).map (·.2)
def DState.putSink (d : DState) (id : Nat) (i : SkInst) : DState :=
  { d with sinks := (id, i) :: d.sinks.filter (·.1 != id) }

def stepSinkOp (d : DState) (op : String) (toks impl : List String) : Option (DState × List String) :=
  let implS := " ".intercalate impl
  match toks with
  | ["new", id, kind] => do
    let k ← mkSink kind
    some (report (d.putSink (← id.toNat?) { k := k, kind := kind }) op { model := "ok", impl := implS, kind := kind })
  | ["sink", id, v] => do
    let id ← id.toNat?
    let i ← d.getSink id
    let x ← V.parse v
    let d := d.putSink id { i with k := i.k.sink x, hist := i.hist ++ [x] }
    some (report d op { model := "ok", impl := implS, kind := i.kind })
  | ["ff", id, v] => do
    let id ← id.toNat?
    let i ← d.getSink id
    let x ← V.parse v
    let r := i.k.filter x
    let hist := i.hist ++ [x]
    let d := (d.putSink id { i with k := r.1, hist := hist }).flag (if hist.length > 1 then "sink.multi" else "sink.first")
    let implOut := (parseOut impl).getD none
    let cl := if hist.any isNan then partialOrderClauses i.kind hist implOut else
      match specRunning i.kind hist, implOut with
      | some e, some y => [clauseEq "C11.running" e y]
      | _, _ => []
    some (report d op { model := renderOut (some r.2), impl := implS, kind := i.kind, clauses := cl })
  | ["kagree", _, _, clause] =>
    -- "the combined statistics sink agrees with the individual ones": its mean and variance (the last two of its four
    -- values) against the mean-variance sink fed the same samples — a differential inside the implementation
    let halves := implS.splitOn " | "
    let toksOf (s : String) : List String := (s.splitOn " ").filter (· != "")
    let (l, r) := (toksOf (halves.headD ""), toksOf ((halves.drop 1).headD ""))
    let e := " ".intercalate r
    let got := " ".intercalate (l.drop (l.length - r.length))
    let cl : List Clause := [{ name := clause, ok := l.length ≥ r.length && got == e, expected := e }]
    some (report (d.flag "sink.agree") op { model := implS, impl := implS, kind := "sink", clauses := cl })
  | ["kclone", a, b] => do
    -- a copy of a sink is the sink its source is (same samples received)
    let i ← d.getSink (← a.toNat?)
    some (report ((d.putSink (← b.toNat?) i).flag "sink.clone") op { model := "ok", impl := implS, kind := i.kind })
  | ["kclonefrom", a, b] => do
    let i ← d.getSink (← b.toNat?)
    let _ ← d.getSink (← a.toNat?)
    some (report ((d.putSink (← a.toNat?) i).flag "sink.clonefrom") op { model := "ok", impl := implS, kind := i.kind })
  | ["fin", id] => do
    let id ← id.toNat?
    let i ← d.getSink id
    let e := renderFin (specFinalize i.kind i.hist)
    let d := d.flag (if i.hist.isEmpty then "sink.fin-empty" else if i.hist.length == 1 then "sink.fin-one" else "sink.fin-many")
    let cl : List Clause := if i.hist.any isNan then partialOrderClauses i.kind i.hist ((parseOut impl).getD none)
      else [{ name := "C11.finalize", ok := e == implS, expected := e }]
    let d := d.putSink id { i with lastFin := some implS }
    some (report d op { model := renderFin i.k.finalize, impl := implS, kind := i.kind, clauses := cl })
  | ["ksame", a, b, clause] => do
    -- two sinks fed in lockstep (a wrapper and the bare sink): their most recent finalised results agree
    let ia ← d.getSink (← a.toNat?)
    let ib ← d.getSink (← b.toNat?)
    let (ea, eb) := (ia.lastFin.getD "-", ib.lastFin.getD "-")
    some (report d op { model := "ok", impl := implS, kind := ia.kind,
                        clauses := [{ name := clause, ok := ea == eb, expected := eb }] })
  | _ => none

/-- the arithmetic sinks at `i64`: no closed-form batch statistic exists there (every step truncates), so the model — the
sink's own recurrence in exact integers with truncating division — is the reference; samples are chosen so that the
recurrence itself never leaves the range, and a panic (an intermediate that does leave it) is a violation -/
def stepI64SinkOp (d : DState) (op : String) (toks impl : List String) : Option (DState × List String) :=
  let implS := " ".intercalate impl
  let get (id : Nat) : Option (SinkModels.Sk I64) := (d.isinks.find? (·.1 == id)).map (·.2)
  let put (d : DState) (id : Nat) (k : SinkModels.Sk I64) : DState := { d with isinks := (id, k) :: d.isinks.filter (·.1 != id) }
  let rl (o : Option (List I64)) : String := match o with
    | none => "none" | some l => if l.isEmpty then "-" else " ".intercalate (l.map I64.render)
  let hget (id : Nat) : String × List Int := ((d.ihist.find? (·.1 == id)).map (·.2)).getD ("", [])
  let hput (d : DState) (id : Nat) (k : String) (h : List Int) : DState :=
    { d with ihist := (id, k, h) :: d.ihist.filter (·.1 != id) }
  -- the batch mean in integers, where it is determined: every prefix mean integral (then no step of the sink's
  -- recurrence truncates, and "the mean of all samples so far" is that integer whatever the arithmetic)
  let exactMean (h : List Int) : Option Int :=
    let ok := (List.range h.length).all (fun k => (h.take (k + 1)).sum % ((k : Int) + 1) == 0)
    if h.isEmpty || !ok then none else some (h.sum / (h.length : Int))
  let meanClause (name kind : String) (h : List Int) (pick : String → Option String) : List Clause :=
    if kind != "sink_mean_i64" && kind != "sink_meanvar_i64" && kind != "sink_stats_i64" then [] else
    match exactMean h with
    | none => []
    | some m =>
      let idx := if kind == "sink_stats_i64" then 2 else 0
      let got := ((implS.splitOn " ").filter (· != ""))[idx]?
      let _ := pick
      [{ name := name, ok := got == some (toString m), expected := toString m }]
  match toks with
  | ["kclone", a, b] => do
    let k ← get (← a.toNat?)
    let (kind, h) := hget (← a.toNat?)
    some (report ((hput (put d (← b.toNat?) k) (← b.toNat?) kind h).flag "sink.clone") op { model := "ok", impl := implS, kind := "sink-i64" })
  | ["kclonefrom", a, b] => do
    let k ← get (← b.toNat?)
    let _ ← get (← a.toNat?)
    let (kind, h) := hget (← b.toNat?)
    some (report ((hput (put d (← a.toNat?) k) (← a.toNat?) kind h).flag "sink.clonefrom") op { model := "ok", impl := implS, kind := "sink-i64" })
  | ["new", id, kind] => do
    let d := hput d (← id.toNat?) kind []
    let k : SinkModels.Sk I64 ← match kind with
      | "sink_mean_i64" => some (.mean none)
      | "sink_meanvar_i64" => some (.meanVar none)
      | "sink_stats_i64" => some (.statistics none none none)
      | "sink_integrate_i64" => some (.integrate none)
      | _ => none
    some (report ((put d (← id.toNat?) k).flag "sink.i64") op { model := "ok", impl := implS, kind := kind })
  | ["sink", id, v] => do
    let id ← id.toNat?
    let k ← get id
    let x ← I64.parse v
    let cl : List Clause := if implS == "PANIC" then [clauseP "no-panic" false "ok"] else []
    let d := hput d id (hget id).1 ((hget id).2 ++ [x.v])
    some (report (put d id (k.sink x)) op { model := "ok", impl := implS, kind := "sink-i64", clauses := cl })
  | ["ff", id, v] => do
    let id ← id.toNat?
    let k ← get id
    let x ← I64.parse v
    let r := k.filter x
    let h := (hget id).2 ++ [x.v]
    let cl : List Clause := if implS == "PANIC" then [clauseP "no-panic" false (rl (some r.2))]
      else meanClause "C11.running" (hget id).1 h (fun _ => none)
    let d := hput d id (hget id).1 h
    some (report (put d id r.1) op { model := rl (some r.2), impl := implS, kind := "sink-i64", clauses := cl })
  | ["fin", id] => do
    let id ← id.toNat?
    let k ← get id
    let cl : List Clause := if implS == "PANIC" then [clauseP "no-panic" false (rl k.finalize)]
      else meanClause "C11.finalize" (hget id).1 (hget id).2 (fun _ => none)
    some (report d op { model := rl k.finalize, impl := implS, kind := "sink-i64", clauses := cl })
  | _ => none

/-! ### pipes -/

partial def parseShape (cs : List Char) : Option (PShape × List Char) :=
  match cs with
  | 'L' :: rest =>
    let (t, r) := (String.ofList (rest.takeWhile Char.isDigit), rest.dropWhile Char.isDigit)
    t.toNat?.map (fun n => (.leaf n, r))
  | 'S' :: rest => some (.src, rest)
  | 'K' :: rest => some (.snk, rest)
  | 'U' :: '(' :: rest => do
    let (i, r) ← parseShape rest
    pure (.unit i, ← expect ')' r)
  | 'P' :: '(' :: rest => do
    let (a, r) ← parseShape rest
    let (b, r) ← parseShape (← expect ',' r)
    pure (.pipe a b, ← expect ')' r)
  | 'O' :: '(' :: rest => do
    let (a, r) ← parseShape rest
    let (b, r) ← parseShape (← expect ',' r)
    pure (.pipe a b, ← expect ')' r)
  | _ => none

/-- a registry filter as a stage of the generic pipe model (`none` = it panicked) -/
def stageOf (st : St V) : Pipes.Stage V := PipeRegistry.stageOf V.err st

def sourceOf : PSrc → Pipes.Source V
  | .expr e => { σ := e.compile.src.σ, next := e.compile.src.next, st := e.compile.st }
  | .burst items =>
    { σ := List (Option V), next := fun l => match l with | [] => (none, []) | o :: r => (o, r), st := items }

/-- the raw answers of the first stage to `k` pulls -/
def psrcPulls (s : PSrc) (k : Nat) : List (Option V) :=
  match s with
  | .expr e => exprPulls e k
  | .burst items => (List.range k).map (fun i => (items[i]?).getD none)

def parsePSrc (s : String) : Option PSrc :=
  if s.startsWith "burst[" then
    let inner : String := String.ofList ((s.toList.drop 6).dropLast)
    if inner.isEmpty then some (.burst []) else
    ((inner.splitOn ",").mapM (fun t => if t == "-" then some none else (V.parse t).map some)).map .burst
  else (parseExprStr s).map .expr

def sinkOf (k : Sk V) : Pipes.Sink V (Option (List V)) :=
  { σ := Sk V, sink := Sk.sink, fin := Sk.finalize, st := k }

def toShape (leaves : List (PipeRegistry.Leaf V)) : PShape → Option (Pipes.Shape V)
  | .leaf i => (leaves[i]?).map (fun l => .leaf (l.stage V.err))
  | .unit i => (toShape leaves i).map .unit
  | .pipe a b => do pure (.pipe (← toShape leaves a) (← toShape leaves b))
  | _ => none

def toSShape (leaves : List (PipeRegistry.Leaf V)) (e : PSrc) : PShape → Option (Pipes.SShape V)
  | .src => some (.src (sourceOf e))
  | .unit i => (toSShape leaves e i).map .unit
  | .pipe a b => do pure (.pipe (← toSShape leaves e a) (← toShape leaves b))
  | _ => none

def toKShape (leaves : List (PipeRegistry.Leaf V)) (k : Sk V) : PShape → Option (Pipes.KShape V (Option (List V)))
  | .snk => some (.snk (sinkOf k))
  | .unit i => (toKShape leaves k i).map .unit
  | .pipe a b => do pure (.pipe (← toShape leaves a) (← toKShape leaves k b))
  | _ => none

/-- specification: feed the whole stream through the stages one after the other -/
def seqSpec (leaves : List (PipeRegistry.Leaf V)) (xs : List V) : List V := PipeRegistry.seqSpecL V.err leaves xs

/-- per-stage invocation record demanded by the property: stage `j` sees the complete output stream of
stage `j-1` (for source pipes: only the items, never the end marker) -/
def seqLogs (leaves : List (PipeRegistry.Leaf V)) (xs : List V) : List (List V) := PipeRegistry.seqLogsL V.err leaves xs

/-- the generic pipe model (`Pipes.Shape.run` etc.) evaluated from the initial state -/
def pipeRunLast (leaves : List (PipeRegistry.Leaf V)) (shape : PShape) (log : List V) : Option V :=
  match toShape leaves shape with
  | some sh => (sh.run log).getLast?
  | none => none

def pipePullLast (leaves : List (PipeRegistry.Leaf V)) (e : PSrc) (shape : PShape) (k : Nat) : Option (Option V) :=
  match toSShape leaves e shape with
  | some sh => (sh.pulls k).getLast?
  | none => none

def pipeFinalize (leaves : List (PipeRegistry.Leaf V)) (k : Sk V) (shape : PShape) (log : List V) : Option (Option (List V)) :=
  match toKShape leaves k shape with
  | some sh => some (sh.feed log).finalize
  | none => none

def renderLogs (l : List (List V)) : String :=
  if l.isEmpty then "-" else " | ".intercalate (l.map renderList')

def DState.getPipe (d : DState) (id : Nat) : Option PipeInst := (d.pipes.find? (·.1 == id)).map (·.2)
def DState.putPipe (d : DState) (id : Nat) (i : PipeInst) : DState :=
  { d with pipes := (id, i) :: d.pipes.filter (·.1 != id) }

def parseLeaves (s : String) : Option (List (PipeRegistry.Leaf V)) :=
  if s == "-" then some [] else
  (s.splitOn "|").mapM (fun l =>
    match l.splitOn ";" with
    | "p_acc" :: params => (parseKV params).val "a" |>.map (fun a => .own (.acc 0 a))
    | "p_affine" :: params => do pure (.own (.affine (← (parseKV params).val "a") (← (parseKV params).val "b")))
    | "p_lag" :: params => (parseKV params).val "init" |>.map (fun v => .own (.lag v))
    | "p_max" :: _ => some (.own (.runMax none))
    -- a stage with a side chain (it owns a source pipe of its own: a constant `b` through an identity stage, polled once
    -- per sample): for the model the stage `x ↦ x + b`
    | "p_side" :: params => (parseKV params).val "b" |>.map (fun b => .own (.affine 1 b))
    | kind :: params => (mkCfg kind (parseKV params)).map (fun c => .lib c.init)
    | [] => none)

partial def shapeFlags : PShape → List String
  | .leaf _ => []
  | .src => ["pipe.source"]
  | .snk => ["pipe.sink"]
  | .unit i => "pipe.unit" :: shapeFlags i
  | .pipe a b => (match b with | .pipe _ _ => ["pipe.right-nested"] | _ => []) ++
                 (match a with | .pipe _ _ => ["pipe.left-nested"] | _ => []) ++ shapeFlags a ++ shapeFlags b

/-- one sample through the stages in pipeline order -/
def threadOwn (ls : List (PipeRegistry.Own V)) (x : V) : List (PipeRegistry.Own V) × V :=
  ls.foldl (fun (acc : List (PipeRegistry.Own V) × V) o => let r := o.step acc.2; (acc.1 ++ [r.1], r.2)) ([], x)

def stepPipeOp (d : DState) (op : String) (toks impl : List String) : Option (DState × List String) :=
  let implS := " ".intercalate impl
  match toks with
  | "new" :: id :: "pipe" :: rest => do
    let kv := parseKV rest
    let (shape, r) ← parseShape ((← kv.get "shape").toList)
    if !r.isEmpty then none else
    let leaves ← parseLeaves (← kv.get "leaves")
    let source ← match kv.get "source" with | some s => (parsePSrc s).map some | none => some none
    let sink ← match kv.get "sink" with | some s => (mkSink s).map some | none => some none
    let d := (shapeFlags shape).foldl DState.flag
      (d.putPipe (← id.toNat?) { shape := shape, leaves := leaves, source := source, sink := sink })
    let d := d.flag s!"pipe.k{leaves.length}"
    some (report d op { model := "ok", impl := implS, kind := "pipe" })
  | ["plong", id] => do
    -- long-run mode: from here on the pipe is followed through the current states of its stages (all harness-defined)
    let id ← id.toNat?
    let p ← d.getPipe id
    let owns ← p.leaves.mapM (fun l => match l with | .own o => some o | _ => none)
    if !p.log.isEmpty || p.pulls != 0 then none else
    let lsrc : Option (Option LSrc) := match p.source with
      | none => some none
      | some (.expr (.take n (.incr a s))) => some (some { cur := a, step := s, left := some n })
      | some (.expr (.incr a s)) => some (some { cur := a, step := s, left := none })
      | _ => none
    let d := (d.putPipe id { p with long := true, lleaves := owns, lsrc := ← lsrc, lsink := p.sink }).flag "pipe.long-run"
    some (report d op { model := "ok", impl := implS, kind := "pipe" })
  | ["pf", id, v] => do
    -- Filter::filter on a pipe of filters
    let id ← id.toNat?
    let p ← d.getPipe id
    let x ← V.parse v
    if p.long then
      let (ls, y) := threadOwn p.lleaves x
      let d := d.putPipe id { p with lleaves := ls }
      some (report d op { model := y.render, impl := implS, kind := "pipe",
                          clauses := [{ name := "C01.sequential-composition", ok := y.render == implS, expected := y.render }] })
    else
    let log := p.log ++ [x]
    let m ← pipeRunLast p.leaves p.shape log
    let e := ((seqSpec p.leaves log).getLast?).getD V.err
    let d := d.putPipe id { p with log := log }
    some (report d op { model := m.render, impl := implS, kind := "pipe",
                        clauses := [{ name := "C01.sequential-composition", ok := e.render == implS, expected := e.render }] })
  | ["pclone", a, b] => do
    -- a copy of a pipe is a pipe of copies of all its stages: same stages, same history
    let p ← d.getPipe (← a.toNat?)
    -- ... each made by that stage's own `Clone` (the harness's stages count their clones)
    let e := s!"clones={p.leaves.length}"
    let cl : List Clause := [{ name := "C01.copy-clones-every-stage", ok := e == implS, expected := e }]
    some (report ((d.putPipe (← b.toNat?) p).flag "pipe.clone") op { model := e, impl := implS, kind := "pipe", clauses := cl })
  | ["pclonefrom", a, b] => do
    -- `a.clone_from(&b)`: afterwards `a` is a copy of `b`
    let p ← d.getPipe (← b.toNat?)
    let e := s!"clones={p.leaves.length}"
    let cl : List Clause := [{ name := "C01.copy-clones-every-stage", ok := e == implS, expected := e }]
    some (report ((d.putPipe (← a.toNat?) p).flag "pipe.clone-from") op { model := e, impl := implS, kind := "pipe", clauses := cl })
  | ["ppull", id] => do
    -- Source::source on a pipe whose first stage is a source
    let id ← id.toNat?
    let p ← d.getPipe id
    if p.long then
      let src ← p.lsrc
      let (o, src') := src.pull
      let (ls, y) : List (PipeRegistry.Own V) × Option V := match o with
        | none => (p.lleaves, none)
        | some x => let r := threadOwn p.lleaves x; (r.1, some r.2)
      let d := d.putPipe id { p with lleaves := ls, lsrc := some src' }
      some (report d op { model := renderOpt y, impl := implS, kind := "pipe",
                          clauses := [{ name := "C01.source-pipe", ok := renderOpt y == implS, expected := renderOpt y }] })
    else
    let e ← p.source
    let k := p.pulls + 1
    let m ← pipePullLast p.leaves e p.shape k
    -- specification: the source's items pushed through the stages; `none` exactly when the source ends
    let items := (psrcPulls e k).filterMap (fun o => o)
    let srcAns := ((psrcPulls e k).getLast?).getD none
    let s : Option V := match srcAns with
      | none => none
      | some _ => (seqSpec p.leaves items).getLast?
    let d := d.putPipe id { p with pulls := k }
    let d := if srcAns.isNone then d.flag "pipe.source-ended" else d
    some (report d op { model := renderOpt m, impl := implS, kind := "pipe",
                        clauses := [{ name := "C01.source-pipe", ok := renderOpt s == implS, expected := renderOpt s }] })
  | ["psink", id, v] => do
    let id ← id.toNat?
    let p ← d.getPipe id
    let x ← V.parse v
    if p.long then
      let k ← p.lsink
      let (ls, y) := threadOwn p.lleaves x
      some (report (d.putPipe id { p with lleaves := ls, lsink := some (k.sink y) }) op { model := "ok", impl := implS, kind := "pipe" })
    else
    some (report (d.putPipe id { p with log := p.log ++ [x] }) op { model := "ok", impl := implS, kind := "pipe" })
  | ["pfin", id] => do
    let id ← id.toNat?
    let p ← d.getPipe id
    if p.long then
      let e := renderFin (← p.lsink).finalize
      let d := d.putPipe id { p with finalised := true }
      some (report d op { model := e, impl := implS, kind := "pipe",
                          clauses := [{ name := "C01.sink-pipe", ok := e == implS, expected := e }] })
    else
    if p.sink.isNone && p.source.isSome then
      -- a `source | … | sink` pipeline whose last stage is a dual-role sink (to the model: the last leaf, a running sum):
      -- finalising it yields what that sink holds after the samples it has seen so far — the items pulled, no more
      let e ← p.source
      let items := (psrcPulls e p.pulls).filterMap (fun o => o)
      let exp := match (seqSpec p.leaves items).getLast? with | some v => v.render | none => "0"
      some (report d op { model := exp, impl := implS, kind := "pipe",
                          clauses := [{ name := "C01.sink-pipe", ok := exp == implS, expected := exp }] })
    else
    let k ← p.sink
    let m := renderFin (← pipeFinalize p.leaves k p.shape p.log)
    -- specification: finalising that sink after it received the samples filtered by the stages in order
    let e := renderFin (k.feed (seqSpec p.leaves p.log)).finalize
    let d := d.putPipe id { p with finalised := true }
    some (report d op { model := m, impl := implS, kind := "pipe",
                        clauses := [{ name := "C01.sink-pipe", ok := e == implS, expected := e }] })
  | ["palive", id] => do
    -- "finalising the pipe yields exactly what finalising that sink after the same filtered samples yields": whoever
    -- finalises the sink by hand still holds the stages, so a sink that reaches into a stage through a handle, or a
    -- stage whose end of life has an effect, tells the two apart unless every stage still exists at that moment
    let p ← d.getPipe (← id.toNat?)
    if !p.finalised then some (report d op { model := implS, impl := implS, kind := "pipe" }) else
    let e := toString p.leaves.length
    some (report d op { model := e, impl := implS, kind := "pipe",
                        clauses := [{ name := "C01.sink-finalised-among-its-stages", ok := e == implS, expected := e }] })
  | ["plog", id] => do
    -- the per-stage invocation record of the probe stages: inputs each stage received, in order
    let id ← id.toNat?
    let p ← d.getPipe id
    let xs : List V := match p.source with
      | some e => (psrcPulls e p.pulls).filterMap (fun o => o)
      | none => p.log
    let e := renderLogs (seqLogs p.leaves xs)
    some (report d op { model := e, impl := implS, kind := "pipe",
                        clauses := [{ name := "C01.invocation-log", ok := e == implS, expected := e }] })
  | _ => none

/-! ### dispatcher -/

def step (d : DState) (line : String) : DState × List String :=
  let d := { d with lineNo := d.lineNo + 1 }
  if line.isEmpty || line.startsWith "#" then (d, []) else
  let (op, impl) := splitArrow line
  let toks := (op.splitOn " ").filter (· != "")
  -- `freshcfg a b`: a new instance built from the configuration instance `a` HANDS OUT (`with_config(a.config())`);
  -- for the model the same thing as `fresh a b`, a new instance with the configuration `a` was given
  let toks := match toks with
    | "freshcfg" :: rest => "fresh" :: rest
    -- `stset a b`: the state of `a` overwritten in place (`*a.state_mut() = b's state`), `b` an instance of the same
    -- configuration: for the model `a` is then what `b` is
    | "stset" :: rest => "clonefrom" :: rest
    | t => t
  match toks with
  | ["case", n] =>
    let out := closeCase d
    ({ d with insts := [], srcs := [], sinks := [], pipes := [], f64s := [], f32s := [], i64s := [], isinks := [], ihist := [], caseNo := n.toNat?.getD (d.caseNo + 1),
              flags := [], caseOps := 0 }, out)
  | _ =>
    match stepPipeOp d op toks impl with
    | some r => r
    | none =>
    match stepSourceOp d op toks impl with
    | some r => r
    | none =>
    match stepI64SinkOp d op toks impl with
    | some r => r
    | none =>
    match stepSinkOp d op toks impl with
    | some r => r
    | none =>
    match stepFloatOp d op toks impl with
    | some r => r
    | none =>
    match stepFilterOp d op toks impl with
    | some r => r
    | none => badOp d line

def finish (d : DState) : List String :=
  closeCase d ++
  [s!"SUMMARY ops={d.nOps} ok={d.nOk} diff={d.nDiff} spec={d.nSpec} bad={d.nBad} clauses={d.nSpecChecked}"]

end SignaloModel.Driver
