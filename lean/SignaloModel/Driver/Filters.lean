import SignaloModel.Model.Value
import SignaloModel.Model.Registry
import SignaloModel.Model.Spec
import SignaloModel.Driver.OtherTypes
/-!
Driver, part 1: the filter instances (registry kinds at the sample type `V`).
Line format: `<op> => <impl result>`; see DESIGN.md Appendix D.
Only glue lives here: text parsing/printing, bookkeeping of instance ids and input histories, and the
calls of the model functions (`Registry.St.filter`, …) and of the specification functions (`Spec.*`).
-/
namespace SignaloModel.Driver
open SignaloModel SignaloModel.Registry

abbrev KV := List (String × String)

def parseKV (toks : List String) : KV :=
  toks.filterMap (fun t => match t.splitOn "=" with
    | k :: v :: rest => some (k, "=".intercalate (v :: rest))
    | _ => none)

def KV.get (kv : KV) (k : String) : Option String := (kv.find? (·.1 == k)).map (·.2)
def KV.nat (kv : KV) (k : String) : Option Nat := (kv.get k).bind String.toNat?
def KV.val (kv : KV) (k : String) : Option V := (kv.get k).bind V.parse
def parseVs (s : String) : Option (List V) :=
  if s == "-" then some [] else (s.splitOn ",").mapM V.parse
def KV.vals (kv : KV) (k : String) : Option (List V) := (kv.get k).bind parseVs
/-- `none` or a value -/
def KV.optVal (kv : KV) (k : String) : Option (Option V) :=
  (kv.get k).bind (fun s => if s == "none" then some none else (V.parse s).map some)

/-- `new`-line parameters → configuration -/
partial def mkCfg (kind : String) (kv : KV) : Option (Cfg V) :=
  match kind with
  | "median" => (kv.nat "N").map .median
  | "mean" => (kv.nat "N").map .mean
  | "max" => (kv.nat "N").map .max
  | "min" => (kv.nat "N").map .min
  | "bounds" => (kv.nat "N").map .bounds
  | "convolve" => (kv.vals "c").map .convolve
  | "convolve_norm" => (kv.vals "c").map (fun c => .convolve (Conv.normalized c))
  | "delay" => (kv.nat "N").map .delay
  | "differentiate" => some .differentiate
  | "integrate" => some .integrate
  | "kalman" => do
    pure (.kalman { r := ← kv.val "r", q := ← kv.val "q", a := ← kv.val "a", b := ← kv.val "b",
                    c := ← kv.val "c" })
  | "alphabeta" => do pure (.alphaBeta (← kv.val "alpha") (← kv.val "beta"))
  | "ema" => (kv.val "w").map .ema
  | "emedian" => do pure (.emedian (← kv.val "pre") (← kv.val "mid") (← kv.val "post"))
  | "meanvar" => (kv.nat "N").map .meanVar
  | "emeanvar" => (kv.val "w").map .emeanVar
  | "threshold" => do pure (.threshold (← kv.val "thr") (← kv.vals "out"))
  | "schmitt" => do pure (.schmitt (← kv.val "low") (← kv.val "high") (← kv.vals "out"))
  | "debounce" => do pure (.debounce (← kv.nat "thr") (← kv.val "pred") (← kv.vals "out"))
  | "slopes" => (kv.vals "out").map .slopes
  | "peaks" => (kv.vals "out").map .peaks
  | "peaks_slopes" => (kv.vals "out").map .peaksSlopes
  | "analyze" => do pure (.analyze (← kv.vals "low") (← kv.vals "high"))
  | "synthesize" => do pure (.synthesize (← kv.vals "low") (← kv.vals "high"))
  | "cache" => do
    let inner ← kv.get "inner"
    pure (.cache (← mkCfg inner kv))
  | "unit" => do
    let inner ← kv.get "inner"
    pure (.unit (← mkCfg inner kv))
  | _ => none

structure Inst where
  st : St V
  /-- inputs since construction / the last reset (inherited by copies), oldest first -/
  hist : List (List V) := []
  /-- the implementation's most recent output (`some none` = it panicked) -/
  last : Option (Option (List V)) := none
  /-- `inject`ed debounce: the run of predicate-equal samples the injected counter stands for -/
  base : Nat := 0
  /-- constructed over the instrumented sample type of the harness (C19) -/
  tracked : Bool := false
  /-- what the implementation printed for its configuration the last time it was asked (kept across a reset) -/
  lastCfg : Option String := none
  /-- an injected state that no history from `Default` reaches (a partially filled tap ring): until the next reset
  only the model correspondence applies, not the history-based specification clauses -/
  nospec : Bool := false
  /-- has produced an output of its own since it was constructed / copied (a copy inherits `last`, which `cached()`
  needs, but two instances are only compared on outputs of their own) -/
  own : Bool := true
  /-- a hand-built composite state the model cannot represent (inner filters carrying a width of their own): the model
  is not compared; only differentials inside the implementation apply -/
  nomodel : Bool := false
  /-- long-run mode (`long id cap`): only the most recent `cap` inputs are kept as history; the history-based clauses
  are then asserted for the windowed kinds only (whose specification reads the last `N ≤ cap/2` inputs) -/
  long : Option Nat := none
  /-- a `filter` call was abandoned half-way by a panicking sample comparison (`fp`): the state is whatever the
  unwinding left, the model does not follow it; only the ledger clauses still apply -/
  poisoned : Bool := false

/-- first stage of a source pipe: an adapter tree, or a scripted source that may answer `none` (an end marker) and
later items again (not fused) — the pipe must poll it on every pull and add no state of its own -/
inductive PSrc where
  | expr (e : Sources.Expr V)
  | burst (items : List (Option V))

/-- the first stage of a long-run source pipe: `take(left, incr(cur, step))` (`left = none`: endless) -/
structure LSrc where
  cur : V
  step : V
  left : Option Nat

def LSrc.pull (s : LSrc) : Option V × LSrc :=
  match s.left with
  | some 0 => (none, s)
  | some (n + 1) => (some s.cur, { s with cur := s.cur + s.step, left := some n })
  | none => (some s.cur, { s with cur := s.cur + s.step })

structure PipeInst where
  shape : PShape
  leaves : List (PipeRegistry.Leaf V)
  source : Option PSrc := none
  sink : Option (SinkModels.Sk V) := none
  /-- inputs fed so far (`f` / `sink`), oldest first -/
  log : List V := []
  pulls : Nat := 0
  /-- has been finalised at least once (`palive` reports on the most recent `pfin`) -/
  finalised : Bool := false
  /-- long-run mode (`plong`): the pipe is followed step by step through the current states of its (harness-defined)
  stages in pipeline order — by `Pipes.run_eq_seq` / `pulls_eq` / `finalize_eq` that is what every nesting computes —
  instead of being re-run from its input log on every operation -/
  long : Bool := false
  lleaves : List (PipeRegistry.Own V) := []
  lsrc : Option LSrc := none
  lsink : Option (SinkModels.Sk V) := none

structure DState where
  insts : List (Nat × Inst) := []
  srcs : List (Nat × SrcInst) := []
  sinks : List (Nat × SkInst) := []
  pipes : List (Nat × PipeInst) := []
  f64s : List (Nat × FInst Float) := []
  f32s : List (Nat × FInst Float32) := []
  i64s : List (Nat × FInst I64) := []
  /-- sinks at machine integers (the arithmetic sinks in "the sample type's own arithmetic": truncating division) -/
  isinks : List (Nat × SinkModels.Sk I64) := []
  /-- what each integer sink has received so far (kind, samples oldest first) -/
  ihist : List (Nat × String × List Int) := []
  lineNo : Nat := 0
  caseNo : Nat := 0
  nOps : Nat := 0
  nOk : Nat := 0
  nDiff : Nat := 0
  nSpec : Nat := 0
  nBad : Nat := 0
  nSpecChecked : Nat := 0
  flags : List String := []
  caseOps : Nat := 0

def DState.get (d : DState) (id : Nat) : Option Inst := (d.insts.find? (·.1 == id)).map (·.2)
def DState.put (d : DState) (id : Nat) (i : Inst) : DState :=
  { d with insts := (id, i) :: d.insts.filter (·.1 != id) }
def DState.flag (d : DState) (f : String) : DState :=
  if d.flags.contains f then d else { d with flags := f :: d.flags }

def sameOut (a b : List V) : Bool := a.length == b.length && (a.zip b).all (fun p => V.sameB p.1 p.2)

def renderOut (o : Option (List V)) : String :=
  match o with
  | none => "PANIC"
  | some l => if l.any V.isErr then "PANIC" else if l.isEmpty then "-" else V.renderList l

def parseOut (toks : List String) : Option (Option (List V)) :=
  match toks with
  | ["PANIC"] => some none
  | ["-"] => some (some [])
  | _ => (toks.mapM V.parse).map some

def renderOpt (o : Option V) : String := match o with | none => "none" | some v => v.render
def renderList' (l : List V) : String := if l.isEmpty then "-" else V.renderList l

/-! ### specification clauses -/

def hasNan (l : List V) : Bool := l.any (fun v => match v with | .q _ => false | _ => true)
def heads (h : List (List V)) : List V := h.filterMap List.head?
def leV (a b : V) : Bool := Median.POrd.le a b
def inUnit (w : V) : Bool := leV 0 w && leV w 1
def allEq (l : List V) : Bool := match l with | [] => true | x :: xs => xs.all (V.sameB x)
def hull (xs : List V) (y : V) : Bool :=
  match Spec.minimum xs, Spec.maximum xs with
  | some lo, some hi => leV lo y && leV y hi
  | _, _ => false

/-- one specification clause: name, holds?, rendering of what was expected -/
structure Clause where
  name : String
  ok : Bool
  expected : String

def clauseEq (name : String) (expected : List V) (impl : List V) : Clause :=
  { name := name, ok := sameOut expected impl, expected := renderOut (some expected) }
def clauseP (name : String) (ok : Bool) (descr : String) : Clause :=
  { name := name, ok := ok, expected := descr }

def slopeOfCode (v : V) : Option Classify.Slope :=
  match v with
  | .q r => if r == 0 then some .rising else if r == 1 then some .flat else if r == 2 then some .falling else none
  | _ => none

/-- the clauses demanded of the implementation's output `y` for the last `filter` call, from the
configuration and the input history (which already includes the current input) only -/
def specFilter (base : Nat) : St V → List (List V) → List V → List Clause
  | .median s, h, y =>
    let w := Spec.window s.buffer.length (heads h)
    if hasNan w then
      [clauseP "C02.member" (match y with | [v] => w.any (V.sameB v) | _ => false) "a window member"]
    else match Spec.lowerMedian w with
      | some m => [clauseEq "C02.lower-median" [m] y]
      | none => []
  | .mean N _, h, y =>
    if N = 0 then [] else [clauseEq "C03.window-mean" [Spec.windowMean N (heads h)] y]
  | .max N _, h, y =>
    let w := Spec.window N (heads h)
    if hasNan w || N = 0 then [] else
    match Spec.extremum gtB w with | some m => [clauseEq "C04.window-max" [m] y] | none => []
  | .min N _, h, y =>
    let w := Spec.window N (heads h)
    if hasNan w || N = 0 then [] else
    match Spec.extremum ltB w with | some m => [clauseEq "C04.window-min" [m] y] | none => []
  | .bounds N _ _, h, y =>
    let w := Spec.window N (heads h)
    if hasNan w || N = 0 then [] else
    match Spec.extremum ltB w, Spec.extremum gtB w with
    | some a, some b => [clauseEq "C04.window-bounds" [a, b] y]
    | _, _ => []
  | .convolve c _, h, y => if c.isEmpty then [] else [clauseEq "C05.fir" [Spec.firAt c (heads h)] y]
  | .delay N _, h, y =>
    match Spec.delayAt N (heads h) with | some v => [clauseEq "C05.delay" [v] y] | none => []
  | .differentiate _, h, y => [clauseEq "C15.first-difference" [Spec.diffAt (heads h)] y]
  | .integrate _, h, y => [clauseEq "C15.running-sum" [Spec.sum (heads h)] y]
  | .kalman c _, h, y =>
    let zs := h.map (fun l => match l with | [z] => (z, (0 : V)) | [z, u] => (z, u) | _ => (V.err, V.err))
    let rec1 := match Spec.kalmanTextbookRun c zs with
      | some (x, _) => [clauseEq "C06.textbook" [x] y]
      | none => []
    let unitCfg := V.sameB c.a 1 && V.sameB c.c 1 && V.sameB c.b 0 && leV 0 c.r && (ltB 0 c.q)
    let rec2 := if unitCfg then
        [clauseP "C06.hull" (match y with | [v] => hull (zs.map (·.1)) v | _ => false) "within the measurements' range"]
      else []
    rec1 ++ rec2
  | .alphaBeta a b _, h, y =>
    match Spec.abRec a b (heads h) with
    | some (p, _) => [clauseEq "C14.recurrence" [p] y]
    | none => []
  | .ema w _, h, y =>
    let r := match Spec.emaRec w (heads h) with | some m => [clauseEq "C13.ema-recurrence" [m] y] | none => []
    let hl := if inUnit w then
        [clauseP "C13.ema-hull" (match y with | [v] => hull (heads h) v | _ => false) "within the samples' range"]
      else []
    r ++ hl
  | .emedian p m q _, h, y =>
    (match Spec.emedRec p m q (heads h) with | some (_, o) => [clauseEq "C13.emedian-recurrence" [o] y] | none => []) ++
    (if inUnit p && inUnit m && inUnit q then
      [clauseP "C13.emedian-hull" (match y with | [v] => hull (heads h) v | _ => false) "within the samples' range"]
    else [])
  | .meanVar N _ _, h, y =>
    if N = 0 then [] else
    match y with
    | [m, v] =>
      [clauseP "C16.var-nonneg" (leV 0 v) ">= 0"] ++
      (if allEq (heads h) then [clauseEq "C16.const-zero" [0] [v]] else [])
    | _ => [clauseP "C16.shape" false "two components"]
  | .emeanVar w _, h, y =>
    match y with
    | [m, v] =>
      (if inUnit w then [clauseP "C16.exp-var-nonneg" (leV 0 v) ">= 0"] else []) ++
      (if allEq (heads h) then [clauseEq "C16.exp-const-zero" [0] [v]] else [])
    | _ => [clauseP "C16.shape" false "two components"]
  | .threshold t o, h, y =>
    match h.getLast? with
    | some [x] => (match pick o (if Classify.Cmp.ge x t then 1 else 0) with
        | some e => [clauseEq "C08.threshold" e y] | none => [])
    | _ => []
  | .schmitt l hi o _, h, y =>
    match pick o (if Spec.schmittRefRun l hi (heads h) then 1 else 0) with
    | some e => [clauseEq "C08.schmitt" e y] | none => []
  | .debounce t p o _, h, y =>
    let run := if (heads h).all (· == p) then base + h.length else Spec.trailingRun p (heads h)
    match pick o (if t ≤ run then 1 else 0) with
    | some e => [clauseEq "C08.debounce" e y] | none => []
  | .slopes o _, h, y =>
    match pick o (slopeIdx (Spec.slopeAt (heads h))) with
    | some e => [clauseEq "C09.slopes" e y] | none => []
  | .peaks o _, h, y =>
    match pick o (peakIdx (Spec.peakAt (heads h))) with
    | some e => [clauseEq "C09.peaks" e y] | none => []
  | .peaksSlopes o _, h, y =>
    -- driven by slopes: a maximum exactly when the previous slope was rising and this one is falling, a minimum exactly
    -- when the previous one was falling and this one is rising, whatever the sequence and wherever it starts
    let codes := (heads h).filterMap slopeOfCode
    if codes.length != h.length then [] else
    let idx : Nat := match codes.reverse with
      | .falling :: .rising :: _ => 0
      | .rising :: .falling :: _ => 2
      | _ => 1
    match pick o idx with
    | some e => [clauseEq "C09.peaks-from-slopes" e y] | none => []
  | .analyze l hp _ _, h, y =>
    if l.isEmpty then [] else
    [clauseEq "C07.analysis-convs" [Spec.firAt l (heads h), Spec.firAt hp (heads h)] y]
  | .synthesize l hp _ _, h, y =>
    if l.isEmpty then [] else
    let lo := h.filterMap (fun p => p[0]?)
    let hi := h.filterMap (fun p => p[1]?)
    [clauseEq "C07.synthesis-sum" [Spec.firAt l lo + Spec.firAt hp hi] y]
  | .cache i _, h, y => specFilter base i h y
  | .unit i, h, y => specFilter base i h y
  | _, _, _ => []

/-- kinds whose specification reads only the last `N` inputs -/
partial def windowKind : St V → Bool
  | .median _ => true | .mean _ _ => true | .max _ _ => true | .min _ _ => true | .bounds _ _ _ => true
  | .convolve _ _ => true | .delay _ _ => true
  | .cache i _ => windowKind i | .unit i => windowKind i
  | _ => false

/-! ### guts / accessors / config rendering -/

def renderTaps (l : List (V × Nat)) : String :=
  if l.isEmpty then "-" else " ".intercalate (l.map (fun p => s!"{p.1.render}:{p.2}"))

def gutsField : St V → String → Option String
  | .mean _ s, "mean" => some (renderOpt s.mean)
  | .mean _ s, "taps" => some (renderList' s.taps)
  | .mean _ s, "weight" => some s.weight.render
  | .max _ s, "time" => some (toString s.time)
  | .max _ s, "taps" => some (renderTaps s.taps)
  | .min _ s, "time" => some (toString s.time)
  | .min _ s, "taps" => some (renderTaps s.taps)
  | .convolve _ t, "taps" => some (renderList' t)
  | .delay _ t, "taps" => some (renderList' t)
  | .differentiate p, "value" => some (renderOpt p)
  | .integrate a, "value" => some a.render
  | .kalman _ s, "cov" => some s.cov.render
  | .kalman _ s, "value" => some (renderOpt s.value)
  | .alphaBeta _ _ s, "velocity" => some s.velocity.render
  | .alphaBeta _ _ s, "value" => some (renderOpt s.value)
  | .ema _ s, "mean" => some (renderOpt s)
  | .schmitt _ _ _ on, "on" => some (toString on)
  | .debounce _ _ _ c, "count" => some (toString c)
  | .slopes _ p, "input" => some (renderOpt p)
  | .emedian _ _ _ s, "median" => some (renderOpt s.median)
  | _, _ => none

def accField : St V → String → Option String
  | .median s, "min" => some (renderOpt (MedianL.minAcc s))
  | .median s, "med" => some (renderOpt (MedianL.medAcc s))
  | .median s, "max" => some (renderOpt (MedianL.maxAcc s))
  | .cache _ c, "cached" => some (match c with | none => "none" | some l => renderOut (some l))
  | _, _ => none

/-- the state the property statements themselves describe, from the history alone: the alpha-beta tracker's position
and velocity (C14), the exponential average (C13), the Kalman estimate and error covariance (C06), the running sum and
the previous sample (C15) -/
def specGuts (i : Inst) (field : String) (impl : String) : List Clause :=
  let h := i.hist
  if h.any (fun l => hasNan l) then [] else
  let mk (name : String) (e : String) : List Clause := [{ name := name, ok := e == impl, expected := e }]
  let zs : List (V × V) := h.map (fun (l : List V) => (l.headD 0, l.getD 1 0))
  match i.st, field with
  | .alphaBeta a b _, "value" =>
    mk "C14.state" (renderOpt ((Spec.abRec a b (heads h)).map (fun (p : V × V) => p.1)))
  | .alphaBeta a b _, "velocity" =>
    mk "C14.state" (match Spec.abRec a b (heads h) with | some (p : V × V) => p.2.render | none => (0 : V).render)
  | .ema w _, "mean" => mk "C13.state" (renderOpt (Spec.emaRec w (heads h)))
  | .kalman c _, "value" =>
    mk "C06.state" (renderOpt ((Spec.kalmanTextbookRun c zs).map (fun (p : V × V) => p.1)))
  | .kalman c _, "cov" =>
    mk "C06.state" (match Spec.kalmanTextbookRun c zs with | some (p : V × V) => p.2.render | none => (0 : V).render)
  | .debounce _ p _ _, "count" =>
    -- "counter of how long input was the same": the trailing run of predicate-equal samples (on top of what an injected
    -- counter stood for), saturating at the counter's maximum
    let run := if (heads h).all (· == p) then i.base + h.length else Spec.trailingRun p (heads h)
    mk "C08.count" (toString (min run (2 ^ 64 - 1)))
  | .integrate _, "value" => mk "C15.state" (Spec.sum (heads h)).render
  | .differentiate _, "value" => mk "C15.state" (renderOpt (heads h).getLast?)
  | _, _ => []

/-- C17 / C20 accessor clauses -/
def specAcc (i : Inst) (which : String) (impl : String) : List Clause :=
  match i.st, which with
  | .median s, w =>
    let win := Spec.window s.buffer.length (heads i.hist)
    -- zeros of either sign in the window (no NaN): which of two equal values is "the" minimum is not determined, but
    -- what an accessor reports is a member of the CURRENT window, as the value it is
    let onlyZeros := win.all (fun v => match v with | .q _ => true | .nz => true | _ => false)
    if hasNan win && onlyZeros && !win.isEmpty then
      (match V.parse impl with
       | some v => [clauseP s!"C17.{w}-member" (win.any (V.sameB v)) "a member of the current window"]
       | none => [clauseP s!"C17.{w}-member" false "a member of the current window"])
    else
    if hasNan win then [] else
    let e := match w with
      | "min" => some (Spec.minimum win)
      | "med" => some (Spec.lowerMedian win)
      | "max" => some (Spec.maximum win)
      | _ => none
    match e with
    | some e => [{ name := s!"C17.{w}", ok := renderOpt e == impl, expected := renderOpt e }]
    | none => []
  | .cache _ _, "cached" =>
    let e := match i.last with | none => "none" | some l => renderOut l
    [{ name := "C20.cached-is-last-output", ok := e == impl, expected := e }]
  | _, _ => []

partial def cfgString : Cfg V → String
  | .convolve c => renderList' c
  | .kalman c => V.renderList [c.r, c.q, c.a, c.b, c.c]
  | .alphaBeta a b => V.renderList [a, b]
  | .ema w => w.render
  | .emedian p m q => V.renderList [p, m, q]
  | .emeanVar w => w.render
  | .threshold t o => V.renderList (t :: o)
  | .schmitt l h o => V.renderList (l :: h :: o)
  | .debounce t p o => s!"{t} " ++ V.renderList (p :: o)
  | .slopes o => V.renderList o
  | .peaks o => V.renderList o
  | .peaksSlopes o => V.renderList o
  | .analyze l h => renderList' l ++ " | " ++ renderList' h
  | .synthesize l h => renderList' l ++ " | " ++ renderList' h
  | .cache i => cfgString i
  | .unit i => cfgString i
  | _ => "-"

/-! ### `inject`: states built through `FromGuts` -/

def parseTaps (s : String) : Option (List (V × Nat)) :=
  if s == "-" then some [] else
  (s.splitOn ",").mapM (fun t => match t.splitOn ":" with
    | [v, n] => do pure (← V.parse v, ← n.toNat?)
    | _ => none)

def optSlope (s : String) : Option (Option Classify.Slope) :=
  if s == "none" then some none else (V.parse s).bind (fun v => (slopeOfCode v).map some)

def mkInjected (kind : String) (kv : KV) : Option (St V) :=
  match kind with
  | "max" => do pure (.max (← kv.nat "N") { time := ← kv.nat "time", taps := ← (kv.get "taps").bind parseTaps })
  | "min" => do pure (.min (← kv.nat "N") { time := ← kv.nat "time", taps := ← (kv.get "taps").bind parseTaps })
  | "debounce" => do
    pure (.debounce (← kv.nat "thr") (← kv.val "pred") (← kv.vals "out") (← kv.nat "count"))
  | "schmitt" => do
    pure (.schmitt (← kv.val "low") (← kv.val "high") (← kv.vals "out") ((kv.get "on") == some "true"))
  | "kalman" => do
    pure (.kalman { r := ← kv.val "r", q := ← kv.val "q", a := ← kv.val "a", b := ← kv.val "b", c := ← kv.val "c" }
      { cov := ← kv.val "cov", value := ← kv.optVal "value" })
  | "alphabeta" => do
    pure (.alphaBeta (← kv.val "alpha") (← kv.val "beta") { velocity := ← kv.val "velocity", value := ← kv.optVal "value" })
  | "ema" => do pure (.ema (← kv.val "w") (← kv.optVal "mean"))
  | "integrate" => do pure (.integrate (← kv.val "value"))
  | "differentiate" => do pure (.differentiate (← kv.optVal "value"))
  | "mean" => do
    pure (.mean (← kv.nat "N") { mean := ← kv.optVal "mean", taps := (kv.vals "taps").getD [], weight := ← kv.val "weight" })
  | "emedian" => do
    pure (.emedian (← kv.val "pre") (← kv.val "mid") (← kv.val "post")
      { pre := ← kv.optVal "spre", post := ← kv.optVal "spost", median := ← kv.optVal "median" })
  | "convolve" => do pure (.convolve (← kv.vals "c") ((kv.vals "taps").getD []))
  | "delay" => do pure (.delay (← kv.nat "N") ((kv.vals "taps").getD []))
  | "analyze" => do
    pure (.analyze (← kv.vals "low") (← kv.vals "high") ((kv.vals "ltaps").getD []) ((kv.vals "htaps").getD []))
  | "synthesize" => do
    pure (.synthesize (← kv.vals "low") (← kv.vals "high") ((kv.vals "ltaps").getD []) ((kv.vals "htaps").getD []))
  -- the inner averages' own copies of the width (`mw`, `vw`) are not in the model: workloads that give them a
  -- different value reset the filter before they feed it
  | "emeanvar" => do pure (.emeanVar (← kv.val "w") { mean := ← kv.optVal "mean", var := ← kv.optVal "var" })
  -- the classifiers' public states; the slope-driven detector's "previous slope" is its field `slope` (the nested slope
  -- filter's memory, `mem`, is not read on that path)
  | "peaks_slopes" => do pure (.peaksSlopes (← kv.vals "out") (← optSlope (← kv.get "prev")))
  | "peaks" => do
    pure (.peaks (← kv.vals "out") { prevInput := ← kv.optVal "prev", slope := ← optSlope (← kv.get "slope") })
  | "slopes" => do pure (.slopes (← kv.vals "out") (← kv.optVal "input"))
  | _ => none

/-! ### one line -/

/-- branch / shape flags of one `filter` call, for the coverage report -/
def stepFlags (before after : St V) (h : List (List V)) : List String :=
  match before, after with
  | .median s, .median s' =>
    let N := s.buffer.length
    let w := Spec.window N (heads h)
    (if h.length > N then ["slid"] else ["warmup"]) ++
    (if s.head != s'.head then ["median.head-moved"] else []) ++
    (if w.length ≥ 2 && !(w.eraseDups.length == w.length) then ["tie"] else []) ++
    (if N % 2 == 0 then ["even-width"] else ["odd-width"]) ++ (if hasNan w then ["nan"] else [])
  | .max N s, .max _ s' =>
    (if s'.time ≤ s.time then ["deque.rebase"] else []) ++
    (if s'.taps.length ≤ s.taps.length then ["deque.popped"] else []) ++
    (if h.length > N then ["slid"] else ["warmup"]) ++ (if s.time > 1000000 then ["deque.near-max"] else [])
  | .min N s, .min _ s' =>
    (if s'.time ≤ s.time then ["deque.rebase"] else []) ++
    (if s'.taps.length ≤ s.taps.length then ["deque.popped"] else []) ++
    (if h.length > N then ["slid"] else ["warmup"]) ++ (if s.time > 1000000 then ["deque.near-max"] else [])
  | .bounds N _ _, _ => if h.length > N then ["slid"] else ["warmup"]
  | .mean N _, _ => if h.length > N then ["slid"] else ["warmup"]
  | .meanVar N _ _, _ => if h.length > N then ["slid"] else ["warmup"]
  | .convolve c _, _ => if h.length > c.length then ["slid"] else ["edge-padded"]
  | .delay N _, _ => if h.length > N then ["slid"] else ["edge-padded"]
  | .debounce t _ _ c, .debounce _ _ _ c' =>
    (if c' == 0 then ["debounce.mismatch"] else []) ++ (if c' == c && c != 0 then ["debounce.saturated"] else []) ++
    (if t ≤ c' then ["debounce.on"] else [])
  | .schmitt _ _ _ on, .schmitt _ _ _ on' => if on != on' then ["schmitt.toggled"] else ["schmitt.held"]
  | _, _ => if h.length > 1 then ["multi"] else []

structure LineResult where
  model : String
  impl : String
  clauses : List Clause := []
  kind : String := "-"

partial def kindName : St V → String
  | .median _ => "median" | .mean _ _ => "mean" | .max _ _ => "max" | .min _ _ => "min"
  | .bounds _ _ _ => "bounds" | .convolve _ _ => "convolve" | .delay _ _ => "delay"
  | .differentiate _ => "differentiate" | .integrate _ => "integrate" | .kalman _ _ => "kalman"
  | .alphaBeta _ _ _ => "alphabeta" | .ema _ _ => "ema" | .emedian _ _ _ _ => "emedian"
  | .meanVar _ _ _ => "meanvar" | .emeanVar _ _ => "emeanvar" | .threshold _ _ => "threshold"
  | .schmitt _ _ _ _ => "schmitt" | .debounce _ _ _ _ => "debounce" | .slopes _ _ => "slopes"
  | .peaks _ _ => "peaks" | .peaksSlopes _ _ => "peaks_slopes" | .hampel _ _ _ => "hampel"
  | .analyze _ _ _ _ => "analyze" | .synthesize _ _ _ _ => "synthesize"
  | .cache i _ => "cache(" ++ kindName i ++ ")" | .unit i => "unit(" ++ kindName i ++ ")"

def splitArrow (line : String) : String × List String :=
  match line.splitOn " => " with
  | [a, b] => (a, (b.splitOn " ").filter (· != ""))
  | _ => (line, [])

def report (d : DState) (op : String) (r : LineResult) : DState × List String :=
  let d := { d with nOps := d.nOps + 1, caseOps := d.caseOps + 1 }
  let diff := r.model != r.impl
  let bad := r.clauses.filter (fun c => !c.ok)
  let d := { d with nSpecChecked := d.nSpecChecked + r.clauses.length }
  let out1 := if diff then [s!"DIFF line={d.lineNo} case={d.caseNo} kind={r.kind} op=[{op}] model=[{r.model}] impl=[{r.impl}]"] else []
  let out2 := bad.map (fun c =>
    s!"SPEC line={d.lineNo} case={d.caseNo} clause={c.name} kind={r.kind} op=[{op}] spec=[{c.expected}] impl=[{r.impl}] model=[{r.model}]")
  let d := if diff then { d with nDiff := d.nDiff + 1 } else d
  let d := if bad.isEmpty then d else { d with nSpec := d.nSpec + bad.length }
  let d := if !diff && bad.isEmpty then { d with nOk := d.nOk + 1 } else d
  (d, out1 ++ out2)

def badOp (d : DState) (line : String) : DState × List String :=
  ({ d with nBad := d.nBad + 1 }, [s!"BADOP line={d.lineNo} [{line}]"])

def closeCase (d : DState) : List String :=
  if d.caseOps == 0 then [] else
  [s!"CASE {d.caseNo} ops={d.caseOps} flags={",".intercalate d.flags.reverse}"]

/-- filter-instance operations; `none` if the line is not one of them -/
def stepFilterOp (d : DState) (op : String) (toks impl : List String) : Option (DState × List String) :=
  let implS := " ".intercalate impl
  -- `fp <id> <k> <x…>`: `filter` during which the k-th sample comparison panics; a call that makes fewer comparisons
  -- is an ordinary `f`
  let toks := match toks with
    | "fp" :: id :: _ :: args => if implS == "panicked" then toks else "f" :: id :: args
    | t => t
  match toks with
  | "fp" :: id :: _ => do
    let id ← id.toNat?
    let inst ← d.get id
    let d := (d.put id { inst with poisoned := true, last := none, own := false }).flag "cmp-panic"
    some (report d op { model := "panicked", impl := implS, kind := kindName inst.st })
  | "new" :: id :: kind :: rest => do
    let id ← id.toNat?
    match mkCfg kind (parseKV rest) with
    | some cfg =>
      let d := d.put id { st := cfg.init, tracked := (parseKV rest).get "T" == some "tracked" }
      some (report d op { model := "ok", impl := implS })
    | none => none
  | "inject" :: id :: kind :: rest => do
    let id ← id.toNat?
    let kv := parseKV rest
    let st ← mkInjected kind kv
    let hist := ((kv.vals "hist").getD []).map (fun v => [v])
    let nospec := !(kind == "max" || kind == "min" || kind == "debounce" || kind == "schmitt")
    -- a tap ring filled by hand to the brim IS the state a history reaches (those taps, in arrival order): there the
    -- history-based specification applies again, so the meaning of the exported / injected taps is pinned down too
    let (hist, nospec) := match st with
      | .convolve c taps => if !c.isEmpty && taps.length == c.length then (taps.map (fun v => [v]), false) else (hist, nospec)
      | .delay N taps => if 0 < N && taps.length == N then (taps.map (fun v => [v]), false) else (hist, nospec)
      | .analyze l _ tl th =>
        -- both rings full and holding the same samples: the analysis filter that was fed those samples
        if !l.isEmpty && tl.length == l.length && tl.map V.render == th.map V.render then (tl.map (fun v => [v]), false)
        else (hist, nospec)
      | .synthesize l _ tl th =>
        if !l.isEmpty && tl.length == l.length && th.length == l.length then ((tl.zip th).map (fun p => [p.1, p.2]), false)
        else (hist, nospec)
      | .mean N ms =>
        if 0 < N && ms.taps.length == N && ms.mean.map V.render == some (Spec.sum ms.taps).render
            && ms.weight.render == (V.ofNat N).render
        then (ms.taps.map (fun v => [v]), false) else (hist, nospec)
      | _ => (hist, nospec)
    let nomodel := kind == "emeanvar" &&
      ((kv.get "mw").isSome && kv.get "mw" != kv.get "w" || (kv.get "vw").isSome && kv.get "vw" != kv.get "w")
    let d := (d.put id { st := st, hist := hist, base := (kv.nat "count").getD 0, tracked := kv.get "T" == some "tracked",
                         nospec := nospec, nomodel := nomodel }).flag "inject"
    some (report d op { model := "ok", impl := implS })
  | "f" :: id :: args => do
    let id ← id.toNat?
    let inst ← d.get id
    -- on the state an abandoned call left behind nothing is predicted (a further panic of safe code included)
    if inst.poisoned then some (report d op { model := implS, impl := implS, kind := kindName inst.st }) else
    if inst.nomodel then
      let d := d.put id { inst with hist := inst.hist ++ [(args.mapM V.parse).getD []], last := some ((parseOut impl).getD none), own := true }
      some (report d op { model := implS, impl := implS, kind := kindName inst.st }) else
    let xs ← args.mapM V.parse
    -- an answer that is not a value at all (a rational with denominator 0 out of memory nobody initialised) is not a
    -- line the driver cannot read, it is a wrong answer
    let parsed := parseOut impl
    let implOut := parsed.getD none
    let res := match inst.st with
      | .peaksSlopes o prev => (match xs with
          | [c] => (slopeOfCode c).bind (peaksSlopeStep o prev)
          | _ => none)
      | st => st.filter xs
    let hist := inst.hist ++ [xs]
    let hist := match inst.long with | some cap => hist.drop (hist.length - cap) | none => hist
    match res with
    | none =>
      let d := d.flag "panic"
      some (report d op { model := "PANIC", impl := implS, kind := kindName inst.st })
    | some (st', y) =>
      let clauses := if parsed.isNone then [clauseP "well-formed-output" false (renderOut (some y))] else match implOut with
        | some yi =>
          if inst.nospec then [] else
          if inst.long.isSome && !windowKind st' then
            -- (long-run mode, a kind whose specification reads the whole history: only what is a predicate on the output)
            (match st', yi with
             | .meanVar _ _ _, [_, v] => [clauseP "C16.var-nonneg" (leV 0 v) ">= 0"]
             | _, _ => [])
          else specFilter inst.base st' hist yi
        -- a panic the model predicts (exact division by zero shows as `err` in the model's output) is agreement
        | none => if y.any (fun v => match v with | .err => true | _ => false) then []
                  else [clauseP "no-panic" false (renderOut (some y))]
      -- from a hand-built state no history explains the output, but the one-step recurrences are statements about ANY
      -- state (`alphaBeta_step`, `ema_step`, `kalman_step_textbook`, `integrate_step`, `differentiate_step`: the
      -- model's step IS the recurrence), so there the model's output is the specification
      let stepClauses : List Clause := match implOut with
        | some yi => if !inst.nospec then [] else (match inst.st with
          | .alphaBeta _ _ _ => [clauseEq "C14.recurrence" y yi]
          | .ema _ _ => [clauseEq "C13.ema-recurrence" y yi]
          | .emedian _ _ _ _ => [clauseEq "C13.emedian-recurrence" y yi]
          | .kalman _ _ => [clauseEq "C06.textbook" y yi]
          | .integrate _ => [clauseEq "C15.running-sum" y yi]
          | .differentiate _ => [clauseEq "C15.first-difference" y yi]
          -- the classifiers' steps are the property's own case tables on (state, sample): rising / falling against the
          -- memorised sample; a maximum exactly when the state's slope is rising and this one falling
          | .peaksSlopes _ _ => [clauseEq "C09.peaks-from-slopes" y yi]
          | .peaks _ _ => [clauseEq "C09.peaks" y yi]
          | .slopes _ _ => [clauseEq "C09.slopes" y yi]
          | _ => [])
        | none => []
      let clauses := clauses ++ stepClauses
      let d := (stepFlags inst.st st' hist).foldl DState.flag d
      let d := d.put id { inst with st := st', hist := hist, last := some implOut, own := true }
      some (report d op { model := renderOut (some y), impl := implS, clauses := clauses, kind := kindName inst.st })
  | "fi" :: id :: args => do
    -- the filter inside a cache wrapper fed directly (the wrapper taken apart and put together again): the inner filter
    -- steps, what the wrapper remembers does not change
    let id ← id.toNat?
    let inst ← d.get id
    let xs ← args.mapM V.parse
    match inst.st with
    | .cache i c =>
      (match i.filter xs with
       | some (i', y) =>
         let d := (d.put id { inst with st := .cache i' c, hist := inst.hist ++ [xs] }).flag "cache.inner-fed"
         some (report d op { model := renderOut (some y), impl := implS, kind := kindName inst.st })
       | none => some (report d op { model := "PANIC", impl := implS, kind := kindName inst.st }))
    | _ => none
  | ["sm", id] => do
    -- the state borrowed through `StateMut::state_mut` and let go of again: nothing changes
    let _ ← d.get (← id.toNat?)
    some (report (d.flag "state-mut-peek") op { model := "ok", impl := implS })
  | ["long", id, cap] => do
    let id ← id.toNat?
    let inst ← d.get id
    let d := (d.put id { inst with long := some (← cap.toNat?) }).flag "long-run"
    some (report d op { model := "ok", impl := implS })
  | ["acc", id, which] => do
    let id ← id.toNat?
    let inst ← d.get id
    let m ← accField inst.st which
    some (report d op { model := m, impl := implS, clauses := specAcc inst which implS, kind := kindName inst.st })
  | ["guts", id, field] => do
    let id ← id.toNat?
    let inst ← d.get id
    let m ← gutsField inst.st field
    some (report d op { model := m, impl := implS, kind := kindName inst.st, clauses := if inst.nospec then [] else specGuts inst field implS })
  | ["cfg", id] => do
    let id ← id.toNat?
    let inst ← d.get id
    -- C12 "the configuration itself is unchanged": against what the implementation printed before (a configuration
    -- that differs from the model's is the business of the property about that filter, not of C12)
    let cl : List Clause := match inst.lastCfg with
      | some before => [{ name := "C12.config-unchanged", ok := before == implS, expected := before }]
      | none => []
    let d := d.put id { inst with lastCfg := some implS }
    some (report d op { model := cfgString inst.st.config, impl := implS, kind := kindName inst.st, clauses := cl })
  | ["reset", id] => do
    let id ← id.toNat?
    let inst ← d.get id
    let d := (d.put id { st := inst.st.reset, hist := [], last := none, tracked := inst.tracked, lastCfg := inst.lastCfg }).flag "reset"
    some (report d op { model := "ok", impl := implS })
  | ["clonep", id, _] => do
    -- a clone attempted while an operation of the sample type panics (the copy, if any, dropped at once): the original is
    -- only borrowed, nothing changes — what `live` reports afterwards is still what the models own
    let _ ← d.get (← id.toNat?)
    some (report (d.flag "clone-panic") op { model := implS, impl := implS })
  | ["clone", id, nid] => do
    let inst ← d.get (← id.toNat?)
    let d := (d.put (← nid.toNat?) { inst with own := false }).flag "clone"
    some (report d op { model := "ok", impl := implS })
  | ["clonefrom", aid, bid] => do
    -- `a.clone_from(&b)`: afterwards `a` is a copy of `b`
    let inst ← d.get (← bid.toNat?)
    let d := (d.put (← aid.toNat?) { inst with own := false }).flag "clonefrom"
    some (report d op { model := "ok", impl := implS })
  | ["gutsrt", id, nid] => do
    let inst ← d.get (← id.toNat?)
    let d := (d.put (← nid.toNat?) { inst with own := false }).flag "gutsrt"
    some (report d op { model := "ok", impl := implS })
  | ["fresh", id, nid] => do
    -- a newly constructed instance with the configuration of `id`
    let inst ← d.get (← id.toNat?)
    let d := (d.put (← nid.toNat?) { st := inst.st.config.init, tracked := inst.tracked }).flag "fresh"
    some (report d op { model := "ok", impl := implS })
  | ["drop", id] => do
    let id ← id.toNat?
    let _ ← d.get id
    some (report { d with insts := d.insts.filter (·.1 != id) } op { model := "ok", impl := implS })
  | ["live"] =>
    -- C19: the harness's ledger of live instrumented samples against the samples the models own.
    -- Own clauses of the property: never a double drop / use of a dead value (`errors=0`), and nothing is live once
    -- every instance has been dropped. The count in between is a model correspondence (DIFF), not the property itself.
    let total := (d.insts.filter (·.2.tracked)).foldl (fun n p => n + p.2.st.owned) 0
    let e := if d.insts.any (·.2.poisoned) then implS else s!"live={total} errors=0"
    let d := d.flag (if total == 0 then "ledger.empty" else "ledger.nonempty")
    let noErr := implS.endsWith "errors=0"
    let anyTracked := d.insts.any (·.2.tracked)
    let cl : List Clause :=
      [{ name := "C19.no-double-drop", ok := noErr, expected := "errors=0" }] ++
      (if anyTracked then [] else [{ name := "C19.nothing-leaked", ok := implS.startsWith "live=0 ", expected := "live=0" }])
    some (report d op { model := e, impl := implS, kind := "ledger", clauses := cl })
  | "same" :: a :: b :: name :: rest => do
    -- the implementation's last outputs of two instances must coincide (component `k` if given);
    -- the harness prints both after `=>`, separated by `|`
    let ia ← d.get (← a.toNat?)
    let ib ← d.get (← b.toNat?)
    let sel : List V → List V := match rest with
      | [k] => fun l => (l[k.toNat?.getD 0]?).toList
      | _ => id
    -- both instances must have produced an output OF THEIR OWN (a copy does not inherit the original's last output):
    -- otherwise the line is not a meaningful comparison and nothing is asserted
    -- "continues like / equals the replay of / reset equals fresh / wrapper equals bare": meaningful only when both
    -- instances have been fed the same inputs since construction or the last reset (a shrunk case may have lost that)
    let sameInputs := ["C20.copy-continues", "C20.copy-eq-replay", "C12.reset-eq-fresh", "C20.cache-transparent",
      "C20.unit-transparent"].contains name
    let histEq := (ia.hist.map (fun l => l.map V.render)) == (ib.hist.map (fun l => l.map V.render))
    match (if ia.own && (!sameInputs || histEq) then ia.last else none), (if ib.own then ib.last else none) with
    | some la, some lb =>
    let ra := renderOut (la.map sel)
    let rb := renderOut (lb.map sel)
    some (report d op { model := s!"{ra} | {rb}", impl := implS, kind := kindName ia.st,
                        clauses := [{ name := name, ok := ra == rb, expected := ra }] })
    | _, _ => some (report d op { model := implS, impl := implS, kind := kindName ia.st })
  | ["compose", "int-diff", id, x0, xn] => do
    -- C15: integrate(differentiate(x))[n] = x[n] - x[0]
    let inst ← d.get (← id.toNat?)
    let kv := parseKV [x0, xn]
    let e := [(← kv.val "xn") - (← kv.val "x0")]
    let m := renderOut (inst.last.bind (·))
    some (report d op { model := m, impl := implS, clauses := [clauseEq "C15.int-of-diff" e ((inst.last.bind (·)).getD [])] })
  | ["compose", "diff-int", id, n, xn] => do
    -- C15: differentiate(integrate(x))[n] = x[n] for n ≥ 1 (0 at n = 0)
    let inst ← d.get (← id.toNat?)
    let kv := parseKV [n, xn]
    let nn ← kv.nat "n"
    let xv ← kv.val "xn"
    let e := if nn ≤ 1 then [(0 : V)] else [xv]
    let m := renderOut (inst.last.bind (·))
    some (report d op { model := m, impl := implS, clauses := [clauseEq "C15.diff-of-int" e ((inst.last.bind (·)).getD [])] })
  | _ => none

end SignaloModel.Driver
