import SignaloModel.Model.Value
import SignaloModel.Model.SinkModels
import SignaloModel.Model.FloatVal
import SignaloModel.Model.IntVal
import SignaloModel.Model.Registry
import SignaloModel.Model.PipeRegistry
import SignaloModel.Proofs.SourcesTree
import SignaloModel.Proofs.SourcesRaw
/-! Driver: instance records of sources, sinks and pipes. Models whose state type lives in `Type 1`
(arbitrary machines) are not stored: the descriptor and the operation log are, and the model is re-run
from its initial state on every operation. -/
namespace SignaloModel.Driver
open SignaloModel

structure SrcInst where
  e : Sources.Expr V
  /-- `src` (plain), `peek` (`Peek` on top), `scache` (`Cache` on top) -/
  top : String
  /-- operations so far, oldest first: `pull` / `peek` -/
  log : List String := []
  /-- what the implementation answered to the most recent `pull` (`none` = not pulled yet) -/
  lastImpl : Option String := none
  /-- an adapter tree with scripted NON-fused leaves (raw answers: end markers may be followed by items), instead of `e` -/
  raw : Option (Sources.RExpr V) := none
  /-- the source is consumed through an iterator view of the into-iterator bridge: `("skip", n)` answers item `j + n`
  to pull `j`, `("step", k)` item `j * k` -/
  view : Option (String × Nat) := none

structure SkInst where
  k : SinkModels.Sk V
  kind : String
  hist : List V := []
  /-- what the implementation answered to the most recent `fin` -/
  lastFin : Option String := none

/-- a float-typed filter instance (Hampel, preset convolutions / wavelet filters) -/
structure FInst (F : Type) where
  st : Registry.St F
  hist : List (List F) := []
  last : Option (Option (List F)) := none
  /-- the implementation's outputs so far, oldest first -/
  outs : List (List F) := []
  /-- for a synthesis filter fed by an analysis filter: the id of that analysis instance -/
  partner : Option Nat := none
  /-- a remark the driver attaches at construction (e.g. `unit-gain`: a normalised integer kernel whose division is exact) -/
  note : String := ""
  /-- what the implementation printed for its configuration the last time it was asked (kept across a reset) -/
  lastCfg : Option String := none
  /-- for a kernel built by the normalising constructor: the coefficients as they were handed in -/
  raw : List F := []
  /-- long-run mode: keep only the most recent `cap` inputs / outputs -/
  long : Option Nat := none

/-- pipe shapes: `L` a filter leaf (index into the leaf list), `S` the source leaf, `K` the sink leaf -/
inductive PShape where
  | leaf (i : Nat)
  | src
  | snk
  | unit (inner : PShape)
  | pipe (l r : PShape)
deriving Repr

end SignaloModel.Driver
