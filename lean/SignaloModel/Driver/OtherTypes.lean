import SignaloModel.Model.Value
import SignaloModel.Model.SinkModels
import SignaloModel.Proofs.SourcesTree
/-! Driver: instance records of sources, sinks and pipes. Models whose state type lives in `Type 1`
(arbitrary machines) are not stored: the descriptor and the operation log are, and the model is re-run
from its initial state on every operation. -/
namespace SignaloModel.Driver
open SignaloModel

structure SrcInst where
  e : Sources.Expr V
  /-- `src` (plain), `peek` (`Peek` on top), `scache` (`Cache` on top) -/
  top : String
  /-- operations so far, oldest first: `pull` / `peek` -/
  log : List String := []

structure SkInst where
  k : SinkModels.Sk V
  kind : String
  hist : List V := []

/-- pipe shapes: `L` a filter leaf (index into the leaf list), `S` the source leaf, `K` the sink leaf -/
inductive PShape where
  | leaf (i : Nat)
  | src
  | snk
  | unit (inner : PShape)
  | pipe (l r : PShape)
deriving Repr

end SignaloModel.Driver
