import SignaloModel.Driver.Filters
import SignaloModel.Gen.Tables
/-!
Driver, part 3: float-typed instances (C18 Hampel; C05 Savitzky-Golay presets; C07 Daubechies presets).
The registry models run at Lean `Float` / `Float32`; values cross the protocol as bit patterns, so the
comparison with the implementation is bit-exact. Specification clauses are evaluated in exact rationals
on the float values.
-/
namespace SignaloModel.Driver
open SignaloModel SignaloModel.Registry SignaloModel.FloatLike

section generic
variable {F : Type} [FloatLike F] [Add F] [Sub F] [Mul F] [Div F] [Neg F] [OfNat F 0] [OfNat F 1]
  [LT F] [DecidableLT F] [BEq F] [Median.POrd F] [Classify.Cmp F]

def fparseList (s : String) : Option (List F) :=
  if s == "-" then some [] else (s.splitOn ",").mapM FloatLike.parse

def frenderOut (o : Option (List F)) : String :=
  match o with
  | none => "PANIC"
  | some l => if l.isEmpty then "-" else " ".intercalate (l.map FloatLike.render)

/-- `Iterator::sum` followed by division of every coefficient, as `daubechies.rs` does it in the float type -/
def normalizeF (raw : List F) : List F :=
  let sum := raw.foldl (· + ·) 0
  if sum == 0 then raw else raw.map (· / sum)

def altNegF : Nat → List F → List F
  | _, [] => []
  | i, x :: xs => (if i % 2 != 0 then -x else x) :: altNegF (i + 1) xs

def daubLowHigh (raw : List Rat) : List F × List F :=
  let low := normalizeF (raw.map (ofRat F))
  (low, altNegF 0 low.reverse)

def lookup (tbl : List (Nat × List Rat)) (n : Nat) : Option (List Rat) := (tbl.find? (·.1 == n)).map (·.2)

def mkFloatCfg (kind : String) (kv : KV) (factor : Rat) : Option (Cfg F) :=
  match kind with
  | "hampel" => do
    let thr ← (kv.get "thr").bind FloatLike.parse
    pure (.hampel (← kv.nat "N") thr (ofRat F factor))
  | "sg" => do
    let c ← lookup Gen.sgTables (← kv.nat "W")
    pure (.convolve (c.map (ofRat F)))
  | "daub_analyze" => do
    let raw ← lookup Gen.dbTables (← kv.nat "O")
    let (low, high) := daubLowHigh (F := F) raw
    pure (.analyze low high)
  | "daub_synth" => do
    let raw ← lookup Gen.dbTables (← kv.nat "O")
    let (low, high) := daubLowHigh (F := F) raw
    pure (.synthesize low.reverse high.reverse)
  | "convolve" => (kv.get "c").bind (fun s => (fparseList s).map .convolve)
  | "convolve_norm" => (kv.get "c").bind (fun s => (fparseList s).map (fun c => .convolve (normalizeF c)))
  | "ema" => do pure (.ema (← (kv.get "w").bind FloatLike.parse))
  | "emedian" => do
    pure (.emedian (← (kv.get "pre").bind FloatLike.parse) (← (kv.get "mid").bind FloatLike.parse)
      (← (kv.get "post").bind FloatLike.parse))
  | "alphabeta" => do pure (.alphaBeta (← (kv.get "alpha").bind FloatLike.parse) (← (kv.get "beta").bind FloatLike.parse))
  | "differentiate_b" => some .differentiate
  | "integrate_b" => some .integrate
  | "mean" => (kv.nat "N").map .mean
  | "meanvar" => (kv.nat "N").map .meanVar
  | "delay" => (kv.nat "N").map .delay
  | "emeanvar" => do pure (.emeanVar (← (kv.get "w").bind FloatLike.parse))
  | "kalman" => do
    let g (k : String) : Option F := (kv.get k).bind FloatLike.parse
    pure (.kalman { r := ← g "r", q := ← g "q", a := ← g "a", b := ← g "b", c := ← g "c" })
  | _ => none

partial def fcfgString : Cfg F → String
  | .convolve c => frenderOut (some c)
  | .hampel _ t _ => FloatLike.render t
  | .analyze l h => frenderOut (some l) ++ " | " ++ frenderOut (some h)
  | .synthesize l h => frenderOut (some l) ++ " | " ++ frenderOut (some h)
  | .ema w => FloatLike.render w
  | .emedian p m q => frenderOut (some [p, m, q])
  | .alphaBeta a b => frenderOut (some [a, b])
  | _ => "-"

/-! ### specification clauses in exact rationals -/

def absQ (q : Rat) : Rat := if q < 0 then -q else q
def ratsOf (l : List F) : Option (List Rat) := l.mapM FloatLike.toRat
def fheads (h : List (List F)) : List F := h.filterMap List.head?
def maxAbs (l : List Rat) : Rat := l.foldl (fun m x => if absQ x > m then absQ x else m) 0

/-- rounding slack of an `n`-term dot product in this float type -/
def dotSlack (F : Type) [FloatLike F] (c xs : List Rat) : Rat :=
  ((c.length + 2 : Nat) : Rat) * 2 * mkRat 1 (2 ^ mantBits F) * (Spec.sum (c.map absQ)) * maxAbs xs
    -- below the normal range every operation errs by up to half the smallest subnormal, whatever the magnitudes
    + ((2 * c.length + 2 : Nat) : Rat) * mkRat 1 (2 ^ (2 ^ (expBits F - 1) - 2 + mantBits F))
    + mkRat 1 (10 ^ 300)

def closeTo (y e tol : Rat) : Bool := absQ (y - e) ≤ tol

/-- C18 clauses: `h` includes the current sample -/
def representable (F : Type) [FloatLike F] (q : Rat) : Bool := FloatLike.toRat (ofRat F q) == some q

def specHampel (N : Nat) (thr fac : F) (h : List (List F)) (y : List F) : List Clause :=
  match ratsOf (fheads h), FloatLike.toRat thr, y with
  | some xs, some t, [yf] =>
    match xs.reverse with
    | [] => []
    | x :: prevRev =>
      let prev := prevRev.reverse
      let w := Spec.window N prev
      -- "the sample": the same bits, or at least the same number (`-0.0` for `0.0` is a model disagreement, not a C18 violation)
      let isX := toBitsNat yf == toBitsNat ((fheads h).getLastD yf) || FloatLike.toRat yf == some x
      match FloatLike.toRat yf, Spec.lowerMedian w, Spec.minimum w with
      | some yq, some med, some mn =>
        let factor : Rat := mkRat 14826 10000
        let maxDist := maxAbs (w.map (· - med))
        let dev := absQ (x - med)
        -- the filter evaluates `|x - med| > ((spread·f)·t)` in the float type: four roundings and the rounded factor;
        -- a sample within that relative distance of the bound may legitimately fall on either side
        let slack : Rat := 1 + mkRat 8 (2 ^ mantBits F)
        let tiny : Rat := mkRat 1 (10 ^ 30)
        -- the bounds below are about real numbers; near the ends of the float range the filter's own arithmetic
        -- overflows (`spread·1.4826` = inf, `inf·0` = NaN) or loses all relative precision (subnormals): there only the
        -- two-valued clause is asserted ("floats up to rounding" does not cover leaving the range)
        let emax : Nat := 2 ^ (expBits F - 1)
        let big : Rat := (2 : Rat) ^ (emax - 8)
        let small : Rat := 1 / (2 : Rat) ^ (emax - 40)
        let tooSmall (q : Rat) : Bool := q != 0 && absQ q < small
        let inRange := maxAbs (x :: w) ≤ big && !tooSmall dev && !tooSmall (t * factor * (med - mn)) &&
          !tooSmall (t * factor * maxDist) && !tooSmall (med - mn) && !tooSmall maxDist
        [clauseP "C18.two-valued" (isX || yq == med) "the sample or the previous window's median"] ++
        (if !inRange then [] else
        -- exactly on the bound: decidable when the bound is computed without rounding whatever the association
        -- (then the filter's own threshold is at least this bound, rounding being monotone, and the rounded distance
        -- is at most it); the factor is the constant as the float type holds it
        let onBound : Bool := match FloatLike.toRat fac with
          | some fq =>
            let spread := med - mn
            representable F (spread * fq) && representable F (fq * t) && representable F (spread * t) &&
              representable F (spread * fq * t) && dev ≤ spread * fq * t
          | none => false
        (if t ≥ 0 && (dev == 0 || onBound || dev * slack + tiny ≤ t * factor * (med - mn)) then
          [clauseP "C18.inlier-passes" isX "the sample (inlier)"] else []) ++
        (if t ≥ 0 && dev > t * factor * maxDist * slack + tiny then
          [clauseP "C18.outlier-replaced" (yq == med) "the median (outlier)"] else []))
      | some _, none, _ => [clauseP "C18.first-unchanged" isX "the first sample unchanged"]
      | _, _, _ => []
  | _, _, _ => []

/-- is the history an exact ramp `a + b·n`? -/
def rampOf (xs : List Rat) : Option (Rat × Rat) :=
  match xs with
  | [] => none
  | [a] => some (a, 0)
  | a :: b :: _ =>
    let d := b - a
    if (List.range xs.length).all (fun i => xs.getD i 0 == a + d * (i : Nat)) then some (a, d) else none

def specConvF (c : List F) (h : List (List F)) (y : List F) (preset : Bool) : List Clause :=
  match ratsOf c, ratsOf (fheads h), y with
  | some cq, some xs, [yf] =>
    match FloatLike.toRat yf with
    | none => []
    | some yq =>
      let tol := dotSlack F cq xs
      let n := xs.length - 1
      [clauseP "C05.fir-float" (closeTo yq (Spec.firAt cq xs) tol) s!"within rounding of {V.showRat (Spec.firAt cq xs)}"] ++
      (match rampOf xs with
       | some (a, b) =>
         if preset then
           let N := cq.length
           let bound := (N : Nat) * mkRat 5 1000000 * (absQ a + absQ b * ((n + N : Nat) : Rat)) + tol
           -- the edge padding makes the signal a ramp only once the window has slid past the first sample,
           -- unless the ramp is constant
           if b == 0 || n + 1 ≥ N then
             [clauseP "C05.sg-reproduces-ramp" (closeTo yq (a + b * (n : Nat)) bound) s!"{V.showRat (a + b * (n : Nat))} to coefficient precision"]
           else []
         else []
       | none => [])
  | _, _, _ => []

def specAnalyzeF (l hp : List F) (h : List (List F)) (y : List F) : List Clause :=
  match ratsOf l, ratsOf hp, ratsOf (fheads h), ratsOf y with
  | some lq, some hq, some xs, some [a, b] =>
    [clauseP "C07.analysis-convs" (closeTo a (Spec.firAt lq xs) (dotSlack F lq xs) && closeTo b (Spec.firAt hq xs) (dotSlack F hq xs))
      "the two convolutions with the configured kernels (within rounding)"]
  | _, _, _, _ => []

def specSynthF (l hp : List F) (h : List (List F)) (y : List F) (analysisInputs : Option (List F)) : List Clause :=
  let lo := h.filterMap (fun p => p[0]?)
  let hi := h.filterMap (fun p => p[1]?)
  match ratsOf l, ratsOf hp, ratsOf lo, ratsOf hi, ratsOf y with
  | some lq, some hq, some los, some his, some [yq] =>
    let tol := dotSlack F lq los + dotSlack F hq his
    [clauseP "C07.synthesis-sum" (closeTo yq (Spec.firAt lq los + Spec.firAt hq his) tol) "sum of the two convolutions (within rounding)"] ++
    (match analysisInputs.bind ratsOf with
     | some xs =>
       if xs.length != los.length then [] else
       let N := lq.length
       let n := xs.length - 1
       let B := maxAbs xs
       let expect := xs.getD (n - (N - 1)) 0
       let bound := (mkRat 1 100000000 + ((8 * N * N : Nat) : Rat) * mkRat 1 (2 ^ mantBits F)) * B + mkRat 1 (10 ^ 300)
       [clauseP "C07.reconstruction" (closeTo yq expect bound) s!"x[n-(N-1)] = {V.showRat expect} within 1e-8·|x|max"]
     | none => [])
  | _, _, _, _, _ => []

/-- "returns the first sample unchanged": as the VALUE it is — an infinity, a zero of either sign (any NaN for a NaN) -/
def firstUnchanged (name : String) (h : List (List F)) (y : List F) : List Clause :=
  match h, y with
  | [[x]], [o] =>
    [clauseP name (toBitsNat x == toBitsNat o || (FloatLike.isNaN x && FloatLike.isNaN o)) (FloatLike.render x)]
  | _, _ => []

/-- "a constant signal is reproduced" at a float type: a finite non-zero sample repeated from the start comes back —
bit for bit in the code as it is (`x + (x − x)·w = x + 0 = x` in IEEE arithmetic, at any magnitude); asserted up to four
roundings, so that a rational-equivalent rewrite of the recurrence is not reported for its rounding alone, while an
intermediate that leaves the type's range (`inf`, `NaN`) is -/
def constantExact (name : String) (gains : List F) (h : List (List F)) (y : List F) : List Clause :=
  match fheads h, y with
  | x :: rest, [o] =>
    (match FloatLike.toRat x with
     | some r =>
       if r != 0 && rest.all (fun v => toBitsNat v == toBitsNat x) && gains.all (fun g => (FloatLike.toRat g).isSome) then
         let ok := match FloatLike.toRat o with
           | some q => absQ (q - r) ≤ 4 * mkRat 1 (2 ^ mantBits F) * absQ r
           | none => false
         [clauseP name ok (FloatLike.render x)]
       else []
     | none => [])
  | _, _ => []

/-- the window mean at a float type while an infinity or a NaN is among the most recent `min(k, N)` samples: their sum
in the type's own arithmetic is an infinity or a NaN, and so is the mean — never a finite number computed from fewer
samples -/
def meanNonFinite (N : Nat) (h : List (List F)) (y : List F) : List Clause :=
  let xs := fheads h
  let w := xs.drop (xs.length - N)
  match y with
  | [o] =>
    if N == 0 || !(w.any (fun v => (FloatLike.toRat v).isNone)) then [] else
    [clauseP "C03.window-mean" (FloatLike.toRat o).isNone "an infinity or NaN (a non-finite sample is inside the window)"]
  | _ => []

/-- "unit gain for constant signals whenever the coefficient sum is non-zero" at a float type: a kernel handed to the
normalising constructor with a non-zero sum — however small in absolute terms — reproduces a constant signal up to the
rounding of the `n` divisions and the `n`-term dot product (relative to the kernel's conditioning `Σ|cᵢ| / |Σcᵢ|`) -/
def unitGainF (raw : List F) (h : List (List F)) (y : List F) : List Clause :=
  match ratsOf raw, ratsOf (fheads h), y with
  | some cq, some (x :: rest), [yf] =>
    let s := Spec.sum cq
    if s == 0 || !(rest.all (· == x)) then [] else
    (match FloatLike.toRat yf with
     | none => []
     | some yq =>
       let u : Rat := mkRat 1 (2 ^ mantBits F)
       let cond : Rat := Spec.sum (cq.map absQ) / absQ s
       let tol : Rat := ((2 * cq.length + 6 : Nat) : Rat) * u * cond * absQ x
         + ((2 * cq.length + 2 : Nat) : Rat) * mkRat 1 (2 ^ (2 ^ (expBits F - 1) - 2 + mantBits F))
       [clauseP "C05.normalized-unit-gain" (absQ (yq - x) ≤ tol) s!"{FloatLike.render ((fheads h).headD yf)} up to rounding"])
  | _, _, _ => []

/-- the generic recursive filters run at a float type: the exact-rational runs carry their properties; here only what
is literally about values is asserted, the rounding of later outputs is not compared -/
def looseKind : St F → Bool
  | .ema _ _ => true | .emedian _ _ _ _ => true | .alphaBeta _ _ _ => true
  | .mean _ _ => true | .meanVar _ _ _ => true | .delay _ _ => true | .emeanVar _ _ => true | .kalman _ _ => true
  | _ => false

/-- bit-for-bit equality of two float values (any NaN equals any NaN) -/
def sameF (a b : F) : Bool := toBitsNat a == toBitsNat b || (FloatLike.isNaN a && FloatLike.isNaN b)

/-- C15 at a float type, where each output is ONE operation of the sample type's own arithmetic on the inputs: the
first difference `x[n] - x[n-1]` (0 for the first sample), the running sum folded from the left -/
def specDiffF (h : List (List F)) (y : List F) : List Clause :=
  let xs := fheads h
  let e : F := match xs.reverse with
    | x :: p :: _ => x - p
    | _ => 0
  match y with
  | [o] => [clauseP "C15.first-difference" (sameF e o) (FloatLike.render e)]
  | _ => []

def specIntF (h : List (List F)) (y : List F) : List Clause :=
  let e : F := (fheads h).foldl (· + ·) 0
  match y with
  | [o] => [clauseP "C15.running-sum" (sameF e o) (FloatLike.render e)]
  | _ => []

def specFloat (getPartnerInputs : Option (List F)) : St F → List (List F) → List F → Bool → List Clause
  | .differentiate _, h, y, _ => specDiffF h y
  | .integrate _, h, y, _ => specIntF h y
  | .ema w _, h, y, _ => firstUnchanged "C13.first-sample-unchanged" h y ++ constantExact "C13.constant-reproduced" [w] h y
  | .emedian p m q _, h, y, _ =>
    firstUnchanged "C13.first-sample-unchanged" h y ++ constantExact "C13.constant-reproduced" [p, m, q] h y
  | .alphaBeta _ _ _, h, y, _ => firstUnchanged "C14.first-sample-unchanged" h y
  | .hampel t f med, h, y, _ => specHampel med.buffer.length t f h y
  | .mean N _, h, y, _ => meanNonFinite N h y
  | .convolve c _, h, y, preset => specConvF c h y preset
  | .analyze l hp _ _, h, y, _ => specAnalyzeF l hp h y
  | .synthesize l hp _ _, h, y, _ => specSynthF l hp h y getPartnerInputs
  | _, _, _, _ => []

def fkindName : St F → String
  | .hampel _ _ _ => "hampel" | .convolve _ _ => "convolve" | .analyze _ _ _ _ => "analyze"
  | .synthesize _ _ _ _ => "synthesize" | .ema _ _ => "ema" | .emedian _ _ _ _ => "emedian"
  | .alphaBeta _ _ _ => "alphabeta" | .differentiate _ => "differentiate" | .integrate _ => "integrate" | .mean _ _ => "mean" | .meanVar _ _ _ => "meanvar" | .delay _ _ => "delay"
  | .emeanVar _ _ => "emeanvar" | .kalman _ _ => "kalman" | _ => "float"

/-- operations on one table of float instances -/
def stepFloatTable (tbl : List (Nat × FInst F)) (factor : Rat) (typeTag : String)
    (d : DState) (op : String) (toks impl : List String) :
    Option (List (Nat × FInst F) × DState × List String) :=
  let implS := " ".intercalate impl
  let get (id : Nat) : Option (FInst F) := (tbl.find? (·.1 == id)).map (·.2)
  let put (id : Nat) (i : FInst F) : List (Nat × FInst F) := (id, i) :: tbl.filter (·.1 != id)
  let done (tbl' : List (Nat × FInst F)) (r : DState × List String) := some (tbl', r.1, r.2)
  match toks with
  | "new" :: id :: kind :: rest =>
    let kv := parseKV rest
    if kv.get "T" != some typeTag then none else do
    let cfg ← mkFloatCfg (F := F) kind kv factor
    let id ← id.toNat?
    let d := d.flag s!"float.{kind}"
    let raw : List F := if kind == "convolve_norm" then ((kv.get "c").bind fparseList).getD [] else []
    done (put id { st := cfg.init, partner := kv.nat "src", raw := raw }) (report d op { model := "ok", impl := implS, kind := kind })
  | "f" :: id :: args => do
    let id ← id.toNat?
    let inst ← get id
    let xs ← args.mapM (FloatLike.parse (F := F))
    let implOut : Option (List F) := if impl == ["PANIC"] then none else impl.mapM FloatLike.parse
    let hist := inst.hist ++ [xs]
    let hist := match inst.long with | some cap => hist.drop (hist.length - cap) | none => hist
    match inst.st.filter xs with
    | none => done tbl (report d op { model := "PANIC", impl := implS, kind := fkindName inst.st })
    | some (st', y) =>
      -- the reconstruction clause applies only if this filter was fed exactly the partner's outputs
      let sameBits (a b : List (List F)) : Bool :=
        a.length == b.length && (a.zip b).all (fun p => p.1.map toBitsNat == p.2.map toBitsNat)
      let partnerInputs := inst.partner.bind (fun pid => (get pid).bind (fun pi =>
        if sameBits pi.outs hist then some (fheads pi.hist) else none))
      let preset := true
      let clauses := match implOut with
        | some yi => specFloat partnerInputs st' hist yi preset ++ (if inst.raw.isEmpty then [] else unitGainF inst.raw hist yi)
        | none => [clauseP "no-panic" false (frenderOut (some y))]
      let d := d.flag (if hist.length > 1 then "multi" else "first")
      let d := match clauses.find? (fun c => c.name == "C18.outlier-replaced") with | some _ => d.flag "hampel.outlier" | none => d
      let d := match clauses.find? (fun c => c.name == "C18.inlier-passes") with | some _ => d.flag "hampel.inlier" | none => d
      let outs := inst.outs ++ [implOut.getD []]
      let outs := match inst.long with | some cap => outs.drop (outs.length - cap) | none => outs
      done (put id { inst with st := st', hist := hist, last := some implOut, outs := outs })
        (report d op { model := if looseKind inst.st then implS else frenderOut (some y), impl := implS, clauses := clauses,
                       kind := fkindName inst.st })
  | ["sm", id] => do
    let _ ← get (← id.toNat?)
    done tbl (report (d.flag "state-mut-peek") op { model := "ok", impl := implS })
  | ["long", id, cap] => do
    let id ← id.toNat?
    let inst ← get id
    done (put id { inst with long := some (← cap.toNat?) }) (report (d.flag "long-run") op { model := "ok", impl := implS })
  | ["cfg", id] => do
    let id ← id.toNat?
    let inst ← get id
    let cl : List Clause := match inst.lastCfg with
      | some before => [{ name := "C12.config-unchanged", ok := before == implS, expected := before }]
      | none => []
    done (put id { inst with lastCfg := some implS })
      (report d op { model := fcfgString inst.st.config, impl := implS, kind := fkindName inst.st, clauses := cl })
  | ["reset", id] => do
    let id ← id.toNat?
    let inst ← get id
    done (put id { inst with st := inst.st.reset, hist := [], last := none, outs := [] })
      (report (d.flag "reset") op { model := "ok", impl := implS, kind := fkindName inst.st })
  | ["clone", id, nid] => do
    let inst ← get (← id.toNat?)
    done (put (← nid.toNat?) { inst with last := none }) (report (d.flag "clone") op { model := "ok", impl := implS })
  | ["gutsrt", id, nid] => do
    let inst ← get (← id.toNat?)
    done (put (← nid.toNat?) { inst with last := none }) (report (d.flag "gutsrt") op { model := "ok", impl := implS })
  | ["clonefrom", aid, bid] => do
    let inst ← get (← bid.toNat?)
    done (put (← aid.toNat?) { inst with last := none }) (report (d.flag "clonefrom") op { model := "ok", impl := implS })
  | ["fresh", id, nid] => do
    let inst ← get (← id.toNat?)
    done (put (← nid.toNat?) { st := inst.st.config.init, partner := inst.partner })
      (report (d.flag "fresh") op { model := "ok", impl := implS })
  | ["drop", id] => do
    let id ← id.toNat?
    let _ ← get id
    done (tbl.filter (·.1 != id)) (report d op { model := "ok", impl := implS })
  | "same" :: a :: b :: name :: rest => do
    let ia ← get (← a.toNat?)
    let ib ← get (← b.toNat?)
    -- an optional component index: that component of `a`'s output against `b`'s output (its only one, or the same component)
    let comp (o : Option (List F)) (single : Bool) : Option (List F) :=
      match rest.head?.bind String.toNat?, o with
      | some k, some l => if single && l.length == 1 then some l else (l[k]?).map (fun v => [v])
      | _, o => o
    -- "same inputs, same outputs" comparisons are meaningful only between instances with the same input history
    let sameInputs := ["C20.copy-continues", "C20.copy-eq-replay", "C12.reset-eq-fresh", "C06.state-determines-future"].contains name
    let histEq := ia.hist.map (fun l => l.map toBitsNat) == ib.hist.map (fun l => l.map toBitsNat)
    match (if !sameInputs || histEq then ia.last else none), ib.last with
    | some la, some lb =>
      let ra := frenderOut (comp la false)
      let rb := frenderOut (comp lb true)
      done tbl (report d op { model := s!"{ra} | {rb}", impl := implS, kind := fkindName ia.st,
                              clauses := [{ name := name, ok := ra == rb, expected := ra }] })
    | _, _ => done tbl (report d op { model := implS, impl := implS, kind := fkindName ia.st })
  | _ => none

end generic

/-! ### machine integers: `Mean<i64, N>` (truncating division) -/

def stepI64Op (d : DState) (op : String) (toks impl : List String) : Option (DState × List String) :=
  let implS := " ".intercalate impl
  if toks.head? == some "sm" && (toks[1]?.bind String.toNat?).any (fun id => d.i64s.any (·.1 == id)) then
    some (report d op { model := "ok", impl := implS }) else
  let get (id : Nat) : Option (FInst I64) := (d.i64s.find? (·.1 == id)).map (·.2)
  let put (d : DState) (id : Nat) (i : FInst I64) : DState := { d with i64s := (id, i) :: d.i64s.filter (·.1 != id) }
  let rl (l : List I64) : String := if l.isEmpty then "-" else " ".intercalate (l.map I64.render)
  match toks with
  | "new" :: id :: "mean" :: rest =>
    let kv := parseKV rest
    -- (`u8` / `i8`: the same arithmetic wherever the type's bounds are not reached — the workloads at those types keep
    -- every sum the filter forms, and the weight, within them)
    if !(["i64", "u8", "i8"].contains ((kv.get "T").getD "")) then none else do
    let n ← kv.nat "N"
    some (report ((put d (← id.toNat?) { st := (Cfg.mean n : Cfg I64).init }).flag "i64") op { model := "ok", impl := implS, kind := "mean-i64" })
  | ["new", id, kind, t] =>
    -- the running sum / the first difference at machine integers: every value the property's formula names (the
    -- running sums, the differences) is kept representable by the workloads, so unbounded integers are the type
    if !(["T=i64", "T=u8", "T=i8"].contains t) || !(kind == "integrate" || kind == "differentiate") then none else do
    let st : St I64 := if kind == "integrate" then (Cfg.integrate : Cfg I64).init else (Cfg.differentiate : Cfg I64).init
    some (report ((put d (← id.toNat?) { st := st }).flag "i64") op { model := "ok", impl := implS, kind := kind ++ "-int" })
  | "new" :: id :: kind :: rest =>
    -- the convolution at machine integers (the normalising constructor divides with truncation)
    let kv := parseKV rest
    if kv.get "T" != some "i64" || !(kind == "convolve" || kind == "convolve_norm") then none else do
    let c ← (kv.get "c").bind (fun s => (s.splitOn ",").mapM I64.parse)
    let sum : Int := (c.map (·.v)).foldl (· + ·) 0
    -- the division by the sum is exact and the quotients sum to one: "unit gain whenever the sum is non-zero" applies
    let exact := kind == "convolve_norm" && sum != 0 && c.all (fun x => x.v % sum == 0)
    let c := if kind == "convolve_norm" then Conv.normalized c else c
    some (report ((put d (← id.toNat?) { st := (Cfg.convolve c : Cfg I64).init, note := if exact then "unit-gain" else "" }).flag "i64")
      op { model := "ok", impl := implS, kind := "convolve-i64" })
  | ["cfg", id] => do
    let inst ← get (← id.toNat?)
    match inst.st with
    | .convolve c _ => some (report d op { model := rl c, impl := implS, kind := "convolve-i64" })
    | _ => some (report d op { model := "-", impl := implS, kind := "mean-i64" })
  | ["f", id, v] => do
    let id ← id.toNat?
    let inst ← get id
    let x ← I64.parse v
    let hist := inst.hist ++ [[x]]
    match inst.st.filter [x] with
    | none => some (report d op { model := "PANIC", impl := implS, kind := "mean-i64" })
    | some (st', y) =>
      let clauses := match inst.st with
        | .mean N _ => if N == 0 then [] else
          let e := (Spec.windowMean N (hist.filterMap List.head?)).render
          [{ name := "C03.window-mean", ok := e == implS, expected := e : Clause }]
        | .integrate _ =>
          let e := toString ((hist.filterMap List.head?).foldl (fun s v => s + v.v) 0)
          [{ name := "C15.running-sum", ok := e == implS, expected := e : Clause }]
        | .differentiate _ =>
          let e := match (hist.filterMap List.head?).reverse with
            | a :: b :: _ => toString (a.v - b.v)
            | _ => "0"
          [{ name := "C15.first-difference", ok := e == implS, expected := e : Clause }]
        | .convolve _ _ =>
          let xs := hist.filterMap List.head?
          if inst.note == "unit-gain" && xs.all (fun v => v.v == x.v) then
            [{ name := "C05.normalized-unit-gain", ok := x.render == implS, expected := x.render : Clause }]
          else []
        | _ => []
      let d := d.flag (match inst.st with | .mean N _ => if hist.length > N then "slid" else "warmup" | _ => "multi")
      some (report (put d id { inst with st := st', hist := hist }) op
        { model := rl y, impl := implS, kind := "mean-i64", clauses := clauses })
  | ["guts", id, field] => do
    let inst ← get (← id.toNat?)
    match inst.st, field with
    | .mean _ s, "mean" => some (report d op { model := (match s.mean with | none => "none" | some m => m.render), impl := implS, kind := "mean-i64" })
    | .mean _ s, "taps" => some (report d op { model := rl s.taps, impl := implS, kind := "mean-i64" })
    | .mean _ s, "weight" => some (report d op { model := s.weight.render, impl := implS, kind := "mean-i64" })
    | .convolve _ t, "taps" => some (report d op { model := rl t, impl := implS, kind := "convolve-i64" })
    | _, _ => none
  | ["reset", id] => do
    let id ← id.toNat?
    let inst ← get id
    some (report ((put d id { inst with st := inst.st.reset, hist := [] }).flag "reset") op { model := "ok", impl := implS, kind := "mean-i64" })
  | [cp, id, nid] =>
    -- a copy (`Clone`, or state extraction and re-injection) is the same value in the model
    if cp == "fresh" then do
      let inst ← get (← id.toNat?)
      some (report ((put d (← nid.toNat?) { st := inst.st.config.init, note := inst.note }).flag cp) op
        { model := "ok", impl := implS, kind := "mean-i64" })
    else if cp == "clonefrom" then do
      let inst ← get (← nid.toNat?)
      some (report ((put d (← id.toNat?) inst).flag cp) op { model := "ok", impl := implS, kind := "mean-i64" })
    else if cp != "clone" && cp != "gutsrt" then none else do
    let inst ← get (← id.toNat?)
    some (report ((put d (← nid.toNat?) inst).flag cp) op { model := "ok", impl := implS, kind := "mean-i64" })
  | _ => none

def stepFloatOp (d : DState) (op : String) (toks impl : List String) : Option (DState × List String) :=
  match stepFloatTable d.f64s Gen.hampelFactor_f64 "f64" d op toks impl with
  | some (tbl, d', out) => some ({ d' with f64s := tbl }, out)
  | none =>
    match stepFloatTable d.f32s Gen.hampelFactor_f32 "f32" d op toks impl with
    | some (tbl, d', out) => some ({ d' with f32s := tbl }, out)
    | none => stepI64Op d op toks impl

end SignaloModel.Driver
